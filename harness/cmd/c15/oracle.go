package main

import (
	"encoding/hex"
	"fmt"
	"sort"
	"strings"
	"sync/atomic"

	"verifharness/lib/wire"
)

// count41 counts OPT (type 41) records per section: answer, authority, additional.
var ownUpSize atomic.Uint32

func count41(m *wire.Msg) (an, ns, ar int) {
	for _, rr := range m.Answer {
		if rr.Type == 41 {
			an++
		}
	}
	for _, rr := range m.Ns {
		if rr.Type == 41 {
			ns++
		}
	}
	for _, rr := range m.Extra {
		if rr.Type == 41 {
			ar++
		}
	}
	return
}

func codeSet(opts []wire.Option) map[uint16]bool {
	m := map[uint16]bool{}
	for _, o := range opts {
		m[o.Code] = true
	}
	return m
}

func codesStr(m map[uint16]bool) string {
	var k []int
	for c := range m {
		k = append(k, int(c))
	}
	sort.Ints(k)
	return fmt.Sprint(k)
}

// witness is what goes into a replay file.
func (cr *chainRun) witness(run *caseRun, extra map[string]any) map[string]any {
	w := map[string]any{
		"chain":        cr.desc,
		"rules":        cr.rules,
		"case":         run.c,
		"client_query": hex.EncodeToString(run.c.queryBytes()),
		"how_to_rerun": "the program regenerates chain idx from (seed, idx, n_cases, real_forward, upstream_multi_opt_class) and re-executes all of its cases in order (cache state matters)",
	}
	run.mu.Lock()
	var ups []map[string]any
	for _, e := range run.up {
		ups = append(ups, map[string]any{"background": e.Background, "via": e.Via, "delivered": e.Delivered,
			"query": hex.EncodeToString(e.Query), "reply": hex.EncodeToString(e.Reply)})
	}
	run.mu.Unlock()
	w["upstream_exchanges"] = ups
	for k, v := range extra {
		w[k] = v
	}
	return w
}

// checkUp judges one message received by the upstream.
func (cr *chainRun) checkUp(run *caseRun, ev *upEvent) {
	c := run.c
	rep.Count("up_queries_observed", 1)
	if ev.Via == "udp" {
		rep.Count("up_queries_via_real_forward_udp", 1)
	}
	if ev.Background {
		rep.Count("up_queries_from_lazy_update", 1)
	}
	viol := func(key, what string) {
		rep.Violation(key, what, cr.witness(run, map[string]any{"offending_upstream_query": hex.EncodeToString(ev.Query)}))
	}
	m, err := wire.Parse(ev.Query)
	if err != nil {
		viol("upstream-query-unparseable", "the query mosdns sent upstream does not parse: "+err.Error())
		return
	}
	// every OPT record of the client's additional section counts as "the client's
	// EDNS0": with several of them (hostile input) none may reach the upstream either
	cOpts := c.clientOpts()
	addl := ""
	if c.Additional != nil {
		addl = fmt.Sprintf(" [client additional section: %s = %d OPT among %d records]", c.additionalShape(), len(cOpts), len(c.Additional))
		rep.Count("up_queries_for_generated_client_additional", 1)
		if len(c.Additional) > 1 {
			rep.Count("up_queries_for_multi_record_client_additional", 1)
		}
	}
	an, ns, ar := count41(m)
	if an+ns+ar != 1 || ar != 1 {
		viol("opt-count-up", fmt.Sprintf("query sent upstream carries %d OPT records (answer %d, authority %d, additional %d); want exactly one in the additional section%s", an+ns+ar, an, ns, ar, addl))
		return
	}
	o := m.OPTs()[0]
	if o.ExtRcode != 0 {
		w := fmt.Sprintf("OPT sent upstream has extended-rcode bits %#x (TTL field %#08x)", o.ExtRcode, o.TTL)
		for _, co := range cOpts {
			if co.ExtRcode == o.ExtRcode {
				w += "; they are the bits of the client's OPT TTL field"
				break
			}
		}
		viol("client-ext-rcode-leaked-upstream", w+addl)
	}
	if o.Version != 0 || o.Z != 0 {
		viol("client-opt-fields-leaked-upstream", fmt.Sprintf("OPT sent upstream has version %d, Z bits %#x (client OPT: %+v); a fresh OPT has version 0 and no Z bits%s", o.Version, o.Z, c.Opt, addl))
	}
	// mosdns' own advertised size is whatever it puts into the fresh OPT for a client that
	// sent no OPT at all (learned, not assumed: the statement does not fix the number)
	if len(cOpts) == 0 {
		ownUpSize.Store(uint32(o.UDPSize))
	}
	for _, co := range cOpts {
		if o.UDPSize == co.Size {
			own := ownUpSize.Load()
			if own == 0 || uint32(o.UDPSize) == own {
				// not learned yet, or the client happens to advertise the same size as mosdns
				rep.Count("up_opt_size_equals_client_size_and_own_size(not judged)", 1)
				break
			}
			viol("client-opt-fields-leaked-upstream", fmt.Sprintf("OPT sent upstream advertises the client's UDP size %d instead of mosdns' own (%d)%s", o.UDPSize, own, addl))
			break
		}
	}
	if o.DO {
		rep.Count("up_opt_do_set", 1)
	}
	named := cr.desc.namedUp()
	var clientOpts []wire.Option
	for _, co := range cOpts {
		clientOpts = append(clientOpts, co.Options...)
	}
	clientCodes := codeSet(clientOpts)
	gen := cr.desc.generatedECS(c.ClientAddr)
	for _, uo := range o.Options {
		rep.Count("up_options_seen", 1)
		if uo.Code == 8 {
			n, ok := normECS(uo.Data)
			isGen := false
			for _, g := range gen {
				if ok && g == n {
					isGen = true
				}
			}
			if isGen {
				rep.Count("up_ecs_generated", 1)
				continue
			}
			isClient := false
			for _, co := range clientOpts {
				if co.Code != 8 {
					continue
				}
				if cn, cok := normECS(co.Data); cok && ok && cn == n {
					isClient = true
				}
			}
			switch {
			case isClient && named[8]:
				rep.Count("up_options_forwarded_explicitly", 1)
			case isClient:
				viol("client-option-leaked-upstream", fmt.Sprintf("client's ECS option %x reached the upstream although no plugin before the terminal forwards code 8 (named codes %s)", uo.Data, codesStr(named)))
			default:
				viol("upstream-option-unexplained", fmt.Sprintf("ECS option %x sent upstream is neither the client's nor what a configured ecs/ecs_handler generates (%+v)", uo.Data, gen))
			}
			continue
		}
		switch {
		case clientCodes[uo.Code] && named[uo.Code]:
			rep.Count("up_options_forwarded_explicitly", 1)
		case clientCodes[uo.Code]:
			viol("client-option-leaked-upstream", fmt.Sprintf("client option code %d (%x) reached the upstream although no plugin before the terminal forwards it (named codes %s)", uo.Code, uo.Data, codesStr(named)))
		default:
			viol("upstream-option-unexplained", fmt.Sprintf("option code %d (%x) sent upstream was not in the client's OPT and no plugin generates it", uo.Code, uo.Data))
		}
	}
}

type replyInfo struct {
	path      string
	truncated bool
	nOpt      int
}

// checkReply judges the bytes EntryHandler.Handle returned for a case.
func (cr *chainRun) checkReply(run *caseRun, reply []byte) replyInfo {
	c := run.c
	info := replyInfo{}
	run.mu.Lock()
	fgDelivered, fgAsked := false, false
	for _, e := range run.up {
		if !e.Background {
			fgAsked = true
			if e.Delivered {
				fgDelivered = true
			}
		}
	}
	hit := run.hitAtTerm
	hitR := run.hitRBytes
	hitUp := run.hitUpOptNonNil
	injected := run.injectedFg
	failSeen := run.failSeen
	run.mu.Unlock()
	if failSeen != "" {
		rep.Count("outcome:upstream_"+failSeen, 1)
	}

	switch {
	case hit && fgAsked:
		info.path = "hit+refetch"
	case hit:
		info.path = "hit@term"
	case fgAsked:
		info.path = "miss"
	default:
		info.path = "no-upstream" // accepted cache hit, local reject, or dropped
	}

	viol := func(key, what string) {
		rep.Violation(key, what, cr.witness(run, map[string]any{"reply_to_client": hex.EncodeToString(reply), "path": info.path}))
	}
	// Two situations put a surplus OPT into R() that query_context cannot have
	// popped: (a) the scripted upstream reply carried more than one OPT - outside
	// the property's quantifier ("no OPT / OPT with any options": at most one);
	// (b) the harness plugin $inject appended one itself. For those the
	// client-side verdicts that presuppose a clean R() (OPT count, DO mirror,
	// option sets) are not judged. What stays in scope: no OPT is ever stored in
	// the cache, and no OPT's TTL field is rewritten by ttl / ageing / truncation.
	multiUp := fgDelivered && len(c.Up.Opts) > 1
	surplus := multiUp || injected
	// (c) the client's query itself carried several OPT records: "exactly one OPT
	// iff the client's query had one" says nothing about it. Whatever mosdns does
	// with such a query (HEAD drops it in the entry handler), only what an
	// upstream receives is judged (checkUp).
	multiClient := len(c.clientOpts()) > 1

	// what the terminal saw when a response was already installed (a cached answer)
	if hit {
		rep.Count("cached_answers_inspected_at_terminal", 1)
		if hm, err := wire.Parse(hitR); err == nil {
			an, ns, ar := count41(hm)
			if an+ns+ar > 0 || hitUp {
				rep.Violation("opt-in-cached-answer", fmt.Sprintf("a cached answer handed out by the cache plugin contained an OPT (in R(): %d; popped into UpstreamOpt: %v)", an+ns+ar, hitUp),
					cr.witness(run, map[string]any{"cached_response_at_terminal": hex.EncodeToString(hitR)}))
			}
		} else if hitUp {
			rep.Violation("opt-in-cached-answer", "a cached answer carried an OPT (UpstreamOpt() non-nil on a cache hit)", cr.witness(run, nil))
		}
	}

	if reply == nil {
		rep.Count("no_reply", 1)
		if c.Opt == nil && fgDelivered && c.Up.extRcode() != 0 {
			rep.Count("no_reply:upstream_ext_rcode_but_client_without_opt", 1)
		}
		info.path += "/noreply"
		return info
	}
	m, err := wire.Parse(reply)
	if err != nil {
		viol("reply-unparseable", "reply bytes from EntryHandler.Handle do not parse: "+err.Error())
		return info
	}
	info.truncated = m.TC()
	if multiClient {
		rep.Count("out_of_quantifier_multi_opt_query_reply_not_judged", 1)
		return info
	}
	if rc := m.Rcode(); (rc == 2 || rc == 5) && !fgDelivered {
		// SERVFAIL / REFUSED synthesised by the handler (or reject): judged like any reply
		rep.Count(fmt.Sprintf("handler_made_replies_judged:rcode%d", rc), 1)
		if c.Opt != nil {
			rep.Count("handler_made_replies_judged_with_client_opt", 1)
		}
	}
	an, ns, ar := count41(m)
	n := an + ns + ar
	info.nOpt = n
	want := 0
	if c.Opt != nil {
		want = 1
	}
	opts := m.OPTs()

	// TTL field (ext-rcode | version | DO | Z)
	wantFlags := uint32(0)
	if c.Opt != nil && c.Opt.DO {
		wantFlags = 0x8000
	}
	countOK := n == want && an == 0 && ns == 0
	if surplus {
		if multiUp {
			rep.Count("out_of_quantifier_multi_opt_reply_not_judged", 1)
		}
		if injected {
			rep.Count("harness_injected_opt_reply_not_judged", 1)
		}
		// every OPT that reaches the client must still carry the TTL field it was
		// created with: mosdns' own, the injected one, or one the upstream sent.
		// (Only the low 24 bits: Pack rewrites the extended-rcode byte of the last OPT.)
		sawInjected := false
		defer func() {
			if injected && !sawInjected {
				// the tree dropped the stray OPT before the client: nothing left whose TTL field could be judged
				rep.Count("injected_opt_absent_from_client_reply", 1)
			}
		}()
		for _, o := range opts {
			low := o.TTL & 0x00FFFFFF
			ok := low == wantFlags
			if multiUp {
				for _, uo := range c.Up.Opts {
					if low == uo.ttl()&0x00FFFFFF {
						ok = true
					}
				}
			}
			if injected && low == c.Inject.ttl()&0x00FFFFFF {
				ok = true
				sawInjected = true
				rep.Count("injected_opt_reached_client_with_ttl_field_intact", 1)
			}
			if !ok {
				viol("opt-ttl-altered", fmt.Sprintf("an OPT in the reply has TTL field %#08x: neither mosdns' own (%#x), nor the OPT a plugin put into R() (%v), nor any OPT the upstream sent (path %s, truncated=%v)", o.TTL, wantFlags, c.Inject, info.path, info.truncated))
			}
		}
		if info.truncated {
			rep.Count("truncated_replies", 1)
		}
		return info
	}
	if !countOK {
		viol("opt-count-down", fmt.Sprintf("reply carries %d OPT records (answer %d, authority %d, additional %d) but the client query had %d", n, an, ns, ar, want))
		for _, o := range opts {
			if low := o.TTL & 0x00FFFFFF; low != wantFlags {
				viol("opt-ttl-altered", fmt.Sprintf("an OPT in the reply has TTL field %#08x, mosdns' own would be %#x", o.TTL, wantFlags))
			}
		}
	} else if want == 1 {
		o := opts[0]
		if o.DO != c.Opt.DO {
			viol("do-not-mirrored", fmt.Sprintf("client DO=%v, reply OPT DO=%v (TTL field %#08x)", c.Opt.DO, o.DO, o.TTL))
		}
		ext := uint8(0)
		if fgDelivered {
			ext = c.Up.extRcode()
		}
		rest := o.TTL &^ 0x8000
		if rest != 0 && rest != uint32(ext)<<24 {
			viol("opt-ttl-altered", fmt.Sprintf("reply OPT TTL field is %#08x; want version 0, no Z bits, extended rcode 0 or the upstream's %#x (path %s, truncated=%v)", o.TTL, ext, info.path, info.truncated))
		}
		if o.ExtRcode != 0 {
			rep.Count("reply_opt_ext_rcode_from_upstream", 1)
		}
	}

	// options
	clientHasECS := false
	if c.Opt != nil {
		clientHasECS = codeSet(c.Opt.Options)[8]
	}
	named := cr.desc.namedDown(clientHasECS)
	allowed := map[uint16]bool{}
	anyUp := map[uint16]bool{}
	if fgDelivered && c.Up.EchoECS && len(c.Up.Opts) > 0 {
		anyUp[8] = true // whatever ECS mosdns sent up came back
		if named[8] {
			allowed[8] = true
		}
	}
	if fgDelivered {
		for i, uo := range c.Up.Opts {
			for _, x := range uo.Options {
				anyUp[x.Code] = true
				if i == len(c.Up.Opts)-1 && named[x.Code] {
					allowed[x.Code] = true
				}
			}
		}
	}
	for _, o := range opts {
		for _, x := range o.Options {
			rep.Count("reply_options_seen", 1)
			switch {
			case allowed[x.Code]:
				rep.Count("reply_options_forwarded_explicitly", 1)
			case anyUp[x.Code]:
				viol("upstream-option-leaked-down", fmt.Sprintf("reply carries upstream option code %d (%x) although no plugin in the chain forwards it for this client (named codes %s; client sent ECS: %v; upstream echoes ECS: %v; path %s)", x.Code, x.Data, codesStr(named), clientHasECS, c.Up.EchoECS, info.path))
			default:
				viol("reply-option-unexplained", fmt.Sprintf("reply carries option code %d (%x) that the upstream did not send for this exchange (path %s)", x.Code, x.Data, info.path))
			}
		}
	}
	if info.truncated {
		rep.Count("truncated_replies", 1)
		if want == 1 && countOK {
			rep.Count("truncated_replies_with_opt_intact", 1)
		}
	}
	return info
}

// checkDumps decodes /dump of every tagged cache of the chain.
func (cr *chainRun) checkDumps(when string) {
	for _, e := range cr.desc.Pre {
		if e.Kind != "cache" {
			continue
		}
		b, err := cr.fetchDump(e.Tag)
		if err != nil {
			rep.Inconclusive("chain %d: cannot fetch dump of %s: %v", cr.desc.Idx, e.Tag, err)
			continue
		}
		ents, err := decodeDump(b)
		if err != nil {
			rep.Inconclusive("chain %d: cannot decode dump of %s: %v", cr.desc.Idx, e.Tag, err)
			continue
		}
		rep.Count("dumps_decoded", 1)
		rep.Count("dump_entries_checked", int64(len(ents)))
		for _, en := range ents {
			m, err := wire.Parse(en.Msg)
			if err != nil {
				rep.Count("dump_entries_unparseable", 1)
				continue
			}
			an, ns, ar := count41(m)
			if an+ns+ar > 0 {
				rep.Violation("opt-in-cache-dump", fmt.Sprintf("a message stored in the cache contains %d OPT record(s) (dump of %s, %s)", an+ns+ar, e.Tag, when),
					map[string]any{"chain": cr.desc, "rules": cr.rules, "stored_msg": hex.EncodeToString(en.Msg), "key": hex.EncodeToString(en.Key),
						"how_to_rerun": "re-run the chain (seed, idx) and dump its cache"})
			}
		}
	}
}

func optClass(o *optSpec) string {
	if o == nil {
		return "-"
	}
	var s []string
	switch {
	case o.Size < 512:
		s = append(s, "s<512")
	case o.Size == 512:
		s = append(s, "s512")
	case o.Size <= 1500:
		s = append(s, "s<=1500")
	default:
		s = append(s, "s>1500")
	}
	if o.DO {
		s = append(s, "DO")
	}
	if o.Version != 0 {
		s = append(s, "v!0")
	}
	if o.Z != 0 {
		s = append(s, "Z")
	}
	if o.ExtRcode != 0 {
		s = append(s, "X")
	}
	// option-code multiset; codes outside the well-known ones collapse to "other" (0)
	var k []int
	for _, x := range o.Options {
		switch x.Code {
		case 3, 5, 8, 10, 11, 12, 15:
			k = append(k, int(x.Code))
		default:
			k = append(k, 0)
		}
	}
	sort.Ints(k)
	s = append(s, fmt.Sprint(k))
	return strings.Join(s, ",")
}
