package main

// Branch family: chains in which a context-copying plugin (dual_selector's
// prefer_ipv4 / prefer_ipv6, fallback with primary / secondary sub-sequences,
// the lazy refresh of cache) sits in front of an option forwarder
// (forward_edns0opt / ecs_handler forward). Every upstream reply names its
// origin (exchange number, case, branch, qtype) both in a TXT record of the
// additional section and inside each EDNS option it carries, so that
//   - the reply that was actually relayed to the client can be read off the
//     client reply itself, and
//   - every option found in the client reply is attributable to one exchange.
// allowed-down = options of the relayed exchange (of this very case) whose
// code a forwarder names. The same chains also produce the handler-made
// SERVFAIL (both branches failed, upstream error) and REFUSED (no response).

import (
	"context"
	"encoding/binary"
	"encoding/hex"
	"errors"
	"fmt"
	"io"
	"math/rand"
	"net/netip"
	"sort"
	"strings"
	"time"

	"github.com/IrineSistiana/mosdns/v5/coremain"
	"github.com/IrineSistiana/mosdns/v5/pkg/pool"
	"github.com/IrineSistiana/mosdns/v5/pkg/query_context"
	"github.com/IrineSistiana/mosdns/v5/pkg/server"
	"github.com/IrineSistiana/mosdns/v5/pkg/server_handler"
	"github.com/IrineSistiana/mosdns/v5/plugin/executable/cache"
	"github.com/IrineSistiana/mosdns/v5/plugin/executable/ecs_handler"
	"github.com/IrineSistiana/mosdns/v5/plugin/executable/sequence"
	"github.com/IrineSistiana/mosdns/v5/plugin/executable/sequence/fallback"
	"github.com/miekg/dns"
	"go.uber.org/zap"

	"verifharness/lib/wire"
)

type branchDesc struct {
	Kind          string   `json:"kind"` // dual4 | dual6 | fallback | lazy
	AlwaysStandby bool     `json:"always_standby,omitempty"`
	Threshold     int      `json:"threshold_ms,omitempty"`
	FwdCodes      []uint16 `json:"forward_edns0opt_codes"` // inside every branch
	EcsForward    bool     `json:"ecs_handler_forward"`    // inside every branch
	OuterFwd      bool     `json:"outer_forward_edns0opt"` // the same forward_edns0opt also in front of the copying plugin
	PostTTL       string   `json:"post_ttl,omitempty"`
	// replace family (replace.go): responders executed one after the other on ONE context
	Steps       []rstep `json:"steps,omitempty"`
	SecondFwdAt int     `json:"second_forwarder_before_step,omitempty"` // with OuterFwd: where the second forward_edns0opt sits
}

func (b *branchDesc) named() map[uint16]bool {
	m := map[uint16]bool{}
	for _, k := range b.FwdCodes {
		m[k] = true
	}
	if b.EcsForward {
		m[8] = true
	}
	return m
}

// forwarders returns how many configured plugins may copy an option of this code downwards.
func (b *branchDesc) forwarders(code uint16) int {
	n := 0
	for _, k := range b.FwdCodes {
		if k == code {
			n++
			if b.OuterFwd {
				n++
			}
		}
	}
	if b.EcsForward && code == 8 {
		n++
	}
	return n
}

func (b *branchDesc) sig() string {
	s := b.Kind
	if b.Kind == "replace" {
		return b.replaceSig()
	}
	if b.Kind == "fallback" {
		s += fmt.Sprintf("(standby=%v)", b.AlwaysStandby)
	}
	s += fmt.Sprintf(">fo%v", b.FwdCodes)
	if b.EcsForward {
		s += ">ehF"
	}
	if b.OuterFwd {
		s = "fo>" + s
	}
	if b.PostTTL != "" {
		s += ">ttl" + b.PostTTL
	}
	return s
}

// bScript is what one branch's upstream does for one qtype of one case.
type bScript struct {
	Fail     string   `json:"fail,omitempty"` // error | noresp
	NoAnswer bool     `json:"no_answer,omitempty"`
	NoOpt    bool     `json:"no_opt,omitempty"`
	Codes    []uint16 `json:"option_codes,omitempty"`
	WaitFor  string   `json:"wait_for,omitempty"` // logical event awaited before answering
	TTL      uint32   `json:"ttl"`
}

// exchange is one upstream exchange of the branch family.
type exchange struct {
	Seq     int           `json:"seq"`
	Branch  string        `json:"branch"`
	Qtype   uint16        `json:"qtype"`
	Case    int           `json:"case"`
	Bg      bool          `json:"background"`
	Options []wire.Option `json:"options"`
}

var branchIDs = map[string]byte{"main": 1, "primary": 2, "secondary": 3, "up0": 4, "up1": 5, "up2": 6, "up3": 7}

// originOption builds an option of the given code whose payload names the exchange.
func originOption(code uint16, seq, caseIdx int, branch string, qtype uint16) wire.Option {
	if code == 8 {
		d := []byte{0, 2, 128, 0, 0xfd, 0xc1, 0x5a, 0x00}
		d = binary.BigEndian.AppendUint32(d, uint32(seq))
		d = binary.BigEndian.AppendUint32(d, uint32(caseIdx))
		d = binary.BigEndian.AppendUint16(d, qtype)
		d = append(d, branchIDs[branch], 0)
		return wire.Option{Code: 8, Data: d}
	}
	return wire.Option{Code: code, Data: []byte(fmt.Sprintf("o:seq=%d:case=%d:%s/%d", seq, caseIdx, branch, qtype))}
}

func decodeOrigin(o wire.Option) (seq int, ok bool) {
	if o.Code == 8 {
		d := o.Data
		if len(d) == 20 && d[0] == 0 && d[1] == 2 && d[2] == 128 && d[4] == 0xfd && d[5] == 0xc1 && d[6] == 0x5a {
			return int(binary.BigEndian.Uint32(d[8:])), true
		}
		return 0, false
	}
	var c int
	var rest string
	if n, _ := fmt.Sscanf(string(o.Data), "o:seq=%d:case=%d:%s", &seq, &c, &rest); n == 3 {
		return seq, true
	}
	return 0, false
}

// show renders option data: text when printable, hex otherwise.
func show(d []byte) string {
	for _, c := range d {
		if c < 0x20 || c > 0x7e {
			return hex.EncodeToString(d)
		}
	}
	return fmt.Sprintf("%q", d)
}

const originOwner = "origin.invalid."

func originTXT(seq, caseIdx int, branch string, qtype uint16) string {
	return fmt.Sprintf("c15-origin seq=%d case=%d branch=%s qtype=%d", seq, caseIdx, branch, qtype)
}

// relayedOrigin reads the origin record out of a client reply.
func relayedOrigin(m *wire.Msg) (seq, caseIdx int, branch string, qtype int, ok bool) {
	for _, rr := range m.Extra {
		if rr.Type != 16 || !strings.EqualFold(rr.Name, originOwner) {
			continue
		}
		for _, s := range wire.TXTStrings(rr.Rdata) {
			if n, _ := fmt.Sscanf(s, "c15-origin seq=%d case=%d branch=%s qtype=%d", &seq, &caseIdx, &branch, &qtype); n == 4 {
				return seq, caseIdx, branch, qtype, true
			}
		}
	}
	return 0, 0, "", 0, false
}

// ---- generators ----

var branchCodes = []uint16{65001, 10, 12, 15, 65002}

func genBranchChain(seed int64, idx, ncases int) *chainDesc {
	r := rand.New(rand.NewSource(seed*1000003 + int64(idx)*7919 + 23))
	if idx >= replaceIdxBase {
		return genReplaceChain(r, seed, idx, ncases)
	}
	b := &branchDesc{}
	switch idx % 4 {
	case 0:
		b.Kind = []string{"dual4", "dual6"}[r.Intn(2)]
	case 1:
		b.Kind, b.AlwaysStandby, b.Threshold = "fallback", true, 1000
	case 2:
		b.Kind, b.AlwaysStandby, b.Threshold = "fallback", false, 5
	default:
		b.Kind = "lazy"
	}
	n := 1 + r.Intn(2)
	seen := map[uint16]bool{}
	for i := 0; i < n; i++ {
		k := branchCodes[r.Intn(len(branchCodes))]
		if !seen[k] {
			seen[k] = true
			b.FwdCodes = append(b.FwdCodes, k)
		}
	}
	sort.Slice(b.FwdCodes, func(i, j int) bool { return b.FwdCodes[i] < b.FwdCodes[j] })
	b.EcsForward = r.Intn(3) == 0
	b.OuterFwd = r.Intn(4) == 0
	if b.Kind != "lazy" && r.Intn(3) == 0 {
		b.PostTTL = []string{"17", "5-10", "0-20"}[r.Intn(3)]
	}
	ch := &chainDesc{Idx: idx, Seed: seed, NCases: ncases, Branch: b, TermMode: "guard"}
	if b.Kind == "lazy" {
		ch.Pre = []elem{{Kind: "cache", Tag: "cachel", Lazy: 3600, Rule: "$cachel"}} // for the dump oracle
	}
	return ch
}

func genBranchCase(r *rand.Rand, ch *chainDesc, idx, phase int, names []string) *clientCase {
	b := ch.Branch
	c := &clientCase{Idx: idx, Phase: phase, Qclass: 1, ID: uint16(r.Intn(65536)), Flags: 0x0100}
	c.Name = names[idx%len(names)] // round robin: consecutive cases never share a cache key
	if b.Kind == "replace" {
		c.Name = names[r.Intn(len(names))]
	}
	switch b.Kind {
	case "dual4":
		c.Qtype = []uint16{28, 28, 28, 1, 16}[r.Intn(5)]
	case "dual6":
		c.Qtype = []uint16{1, 1, 1, 28, 16}[r.Intn(5)]
	case "lazy":
		c.Qtype = 1
	default:
		c.Qtype = []uint16{1, 1, 28, 16}[r.Intn(4)]
	}
	c.ClientAddr = clientAddrs[r.Intn(len(clientAddrs))]
	c.FromUDP = r.Intn(2) == 0
	if r.Intn(7) != 0 {
		o := &optSpec{Size: []uint16{1232, 4096, 512}[r.Intn(3)], DO: r.Intn(2) == 0, Options: []wire.Option{}}
		if r.Intn(8) == 0 {
			o.Version = uint8(1 + r.Intn(255))
		}
		for _, k := range b.FwdCodes {
			if r.Intn(10) < 7 {
				o.Options = append(o.Options, wire.Option{Code: k, Data: []byte(fmt.Sprintf("client-%d-%d", k, idx))})
			}
		}
		if r.Intn(10) < 7 {
			o.Options = append(o.Options, wire.Option{Code: 8, Data: []byte{0, 1, 24, 0, 10, byte(r.Intn(256)), byte(r.Intn(256))}})
		}
		if r.Intn(3) == 0 {
			o.Options = append(o.Options, genOption(r, []uint16{3, 11, 20000, 65009}[r.Intn(4)], false))
		}
		c.Opt = o
	}

	codes := func() []uint16 {
		var out []uint16
		for _, k := range b.FwdCodes {
			if r.Intn(10) < 8 {
				out = append(out, k)
			}
		}
		if r.Intn(10) < 6 {
			out = append(out, 8)
		}
		if r.Intn(4) == 0 {
			out = append(out, 65009) // never named by any forwarder
		}
		return out
	}
	ok := func() bScript {
		return bScript{TTL: []uint32{300, 60, 3600}[r.Intn(3)], Codes: codes(), NoOpt: r.Intn(8) == 0}
	}
	fail := func() bScript { return bScript{Fail: []string{"error", "noresp"}[r.Intn(2)], TTL: 60} }
	c.Script = map[string]bScript{}
	switch b.Kind {
	case "replace":
		genReplaceScript(r, b, c, ok, fail)
	case "dual4", "dual6":
		pref := uint16(1)
		if b.Kind == "dual6" {
			pref = 28
		}
		for _, qt := range []uint16{1, 28, 16} {
			s := ok()
			if qt == pref && r.Intn(10) < 6 {
				s.NoAnswer = true // reference query finds nothing: the original reply passes
			}
			if r.Intn(12) == 0 {
				s = fail()
			}
			c.Script[fmt.Sprintf("main/%d", qt)] = s
		}
	case "fallback":
		p, s := ok(), ok()
		v := r.Intn(10)
		switch {
		case v < 4: // primary wins
			if b.AlwaysStandby {
				p.WaitFor = "secondary-done" // the standby branch has completely finished first
			}
		case v < 6: // primary fails, secondary is relayed
			p = fail()
		case v < 8: // slow primary
			if !b.AlwaysStandby {
				p.WaitFor = "secondary-called"
			}
		case v < 9:
			p, s = fail(), fail() // SERVFAIL made by the handler
		default:
			s = fail()
		}
		c.Script[fmt.Sprintf("primary/%d", c.Qtype)] = p
		c.Script[fmt.Sprintf("secondary/%d", c.Qtype)] = s
	case "lazy":
		s := ok()
		s.TTL = 1
		if phase == 0 && r.Intn(3) == 0 {
			s.TTL = 300
		}
		if r.Intn(15) == 0 {
			s = fail()
		}
		c.Script["main/1"] = s
	}
	return c
}

// ---- harness plugins ----

func (cr *chainRun) lookup(ctx context.Context, qCtx *query_context.Context) (run *caseRun, fg bool) {
	if run, _ = ctx.Value(ctxKey{}).(*caseRun); run != nil {
		return run, true
	}
	cr.idmu.Lock()
	run = cr.byCtx[qCtx.Id()]
	cr.idmu.Unlock()
	return run, false
}

// bmark brackets a branch: its way-back part runs after every plugin behind it
// (the option forwarders included) has finished.
type bmark struct {
	cr     *chainRun
	branch string
	lazy   bool
}

func (b *bmark) Exec(ctx context.Context, qCtx *query_context.Context, next sequence.ChainWalker) error {
	run, fg := b.cr.lookup(ctx, qCtx)
	if run == nil {
		return errors.New("harness: unknown query context")
	}
	lazyHit := false
	if b.lazy && fg {
		if r := qCtx.R(); r != nil && len(r.Answer) > 0 {
			lazyHit = true
			for _, rr := range r.Answer {
				if rr.Header().Ttl != 5 { // cache serves expired entries with TTL 5; scripted TTLs are never 5
					lazyHit = false
				}
			}
		}
	}
	err := next.ExecNext(ctx, qCtx)
	switch {
	case !b.lazy:
		run.signal(b.branch + "-done")
	case !fg:
		run.signal("bg-done")
	case lazyHit:
		rep.Count("lazy_hits_with_refresh_awaited", 1)
		if !run.wait(ctx, "bg-done") {
			rep.Count("watchdog:lazy_refresh_not_seen", 1)
		}
	}
	return err
}

// bterm is the upstream of one branch.
type bterm struct {
	cr     *chainRun
	branch string
	always bool // replace family: queries its upstream whatever R() holds, like forward does
}

func (t *bterm) Exec(ctx context.Context, qCtx *query_context.Context) error {
	run, fg := t.cr.lookup(ctx, qCtx)
	if run == nil {
		return errors.New("harness: unknown query context")
	}
	b := t.cr.desc.Branch
	bg := b.Kind == "lazy" && !fg
	run.signal(t.branch + "-called")
	if r := qCtx.R(); r != nil && !t.always {
		if !bg {
			run.mu.Lock()
			run.hitAtTerm = true
			if pb, err := r.Pack(); err == nil {
				run.hitRBytes = pb
			}
			run.hitUpOptNonNil = qCtx.UpstreamOpt() != nil
			run.mu.Unlock()
		}
		return nil
	}
	payload, err := pool.PackBuffer(qCtx.Q())
	if err != nil {
		return err
	}
	qb := append([]byte(nil), (*payload)...)
	pool.ReleaseBuf(payload)
	ev := upEvent{Background: bg, Via: "bterm:" + t.branch, Query: qb}
	uq, perr := wire.Parse(qb)
	if perr != nil || len(uq.Questions) != 1 {
		run.addUp(ev)
		t.cr.checkUp(run, &ev)
		return errors.New("harness upstream cannot parse query")
	}
	qt := uq.Questions[0].Type
	sc, have := run.c.Script[fmt.Sprintf("%s/%d", t.branch, qt)]
	if !have {
		sc = bScript{Fail: "error"}
	}
	if sc.WaitFor != "" && !bg {
		if !run.wait(ctx, sc.WaitFor) {
			rep.Count("watchdog:branch_wait_"+sc.WaitFor, 1)
		}
	}
	if sc.Fail != "" {
		run.addUp(ev)
		t.cr.checkUp(run, &ev)
		if !bg {
			run.mu.Lock()
			run.failSeen = sc.Fail
			run.mu.Unlock()
		}
		if sc.Fail == "noresp" {
			return nil
		}
		return errScripted
	}
	seq := int(t.cr.xseq.Add(1))
	ex := exchange{Seq: seq, Branch: t.branch, Qtype: qt, Case: run.c.Idx, Bg: bg}
	q0 := uq.Questions[0]
	rb := wire.NewBuilder(uq.ID, 0x8000|(uq.Flags&0x0100)|0x0080)
	rb.Question(q0.RawName, q0.Type, q0.Class)
	if !sc.NoAnswer {
		switch qt {
		case 28:
			rd := make([]byte, 16)
			rd[0], rd[1], rd[15] = 0x20, 0x01, byte(seq)
			rb.RR(0, q0.RawName, 28, q0.Class, sc.TTL, rd)
		case 16:
			rb.RR(0, q0.RawName, 16, q0.Class, sc.TTL, wire.TXTRdata("answer"))
		default:
			rb.RR(0, q0.RawName, 1, q0.Class, sc.TTL, []byte{203, 0, 113, byte(seq)})
		}
	}
	rb.RR(2, wire.EncodeName(originOwner), 16, 1, sc.TTL, wire.TXTRdata(originTXT(seq, run.c.Idx, t.branch, qt)))
	if !sc.NoOpt {
		for _, k := range sc.Codes {
			ex.Options = append(ex.Options, originOption(k, seq, run.c.Idx, t.branch, qt))
		}
		rb.OPT(1232, 0, 0, false, 0, ex.Options)
	}
	ev.Reply = rb.Bytes()
	r := new(dns.Msg)
	if err := r.Unpack(ev.Reply); err != nil {
		run.addUp(ev)
		return errors.New("all upstream servers failed")
	}
	ev.Delivered = true
	run.addUp(ev)
	t.cr.checkUp(run, &ev)
	run.mu.Lock()
	run.exch = append(run.exch, ex)
	run.mu.Unlock()
	rep.Count("branch_exchanges:"+t.branch, 1)
	if bg {
		rep.Count("branch_exchanges_in_lazy_refresh", 1)
	}
	qCtx.SetResponse(r)
	return nil
}

// ---- chain construction ----

func buildBranchChain(desc *chainDesc) (*chainRun, error) {
	b := desc.Branch
	cr := &chainRun{desc: desc, byCtx: map[uint32]*caseRun{}}
	plugins := map[string]any{}
	cr.m = coremain.NewTestMosdnsWithPlugins(plugins)
	plugins["probe"] = &probe{cr: cr}
	for _, br := range []string{"main", "primary", "secondary"} {
		plugins["bterm_"+br] = &bterm{cr: cr, branch: br}
		plugins["bmark_"+br] = &bmark{cr: cr, branch: br, lazy: b.Kind == "lazy"}
	}
	newPlugin := func(typ, tag string, fill func(args any)) error {
		info, ok := coremain.GetPluginType(typ)
		if !ok {
			return fmt.Errorf("plugin type %s not registered", typ)
		}
		args := info.NewArgs()
		fill(args)
		p, err := info.NewPlugin(coremain.NewBP(tag, cr.m), args)
		if err != nil {
			return err
		}
		plugins[tag] = p
		if c, ok := p.(io.Closer); ok {
			cr.closers = append(cr.closers, c)
		}
		return nil
	}
	var inner []sequence.RuleArgs
	fwdRule := "forward_edns0opt " + codesText(b.FwdCodes)
	inner = append(inner, sequence.RuleArgs{Exec: fwdRule})
	if b.EcsForward {
		if err := newPlugin("ecs_handler", "becs", func(a any) { a.(*ecs_handler.Args).Forward = true }); err != nil {
			return nil, err
		}
		inner = append(inner, sequence.RuleArgs{Exec: "$becs"})
	}
	branchRules := func(br string) []sequence.RuleArgs {
		rs := []sequence.RuleArgs{{Exec: "$bmark_" + br}}
		rs = append(rs, inner...)
		return append(rs, sequence.RuleArgs{Exec: "$bterm_" + br})
	}
	bq := sequence.NewBQ(cr.m, zap.NewNop())
	rules := []sequence.RuleArgs{{Exec: "$probe"}}
	if b.OuterFwd {
		rules = append(rules, sequence.RuleArgs{Exec: fwdRule})
	}
	switch b.Kind {
	case "replace":
		var err error
		if rules, err = cr.buildReplaceRules(plugins, newPlugin, fwdRule); err != nil {
			return nil, err
		}
	case "dual4", "dual6":
		rules = append(rules, sequence.RuleArgs{Exec: map[string]string{"dual4": "prefer_ipv4", "dual6": "prefer_ipv6"}[b.Kind]})
		rules = append(rules, branchRules("main")...)
	case "fallback":
		for _, br := range []string{"primary", "secondary"} {
			s, err := sequence.NewSequence(bq, branchRules(br))
			if err != nil {
				return nil, err
			}
			plugins["seq_"+br] = s
			cr.closers = append(cr.closers, s)
		}
		if err := newPlugin("fallback", "fb", func(a any) {
			fa := a.(*fallback.Args)
			fa.Primary, fa.Secondary, fa.Threshold, fa.AlwaysStandby = "seq_primary", "seq_secondary", b.Threshold, b.AlwaysStandby
		}); err != nil {
			return nil, err
		}
		rules = append(rules, sequence.RuleArgs{Exec: "$fb"})
	case "lazy":
		if err := newPlugin("cache", "cachel", func(a any) {
			ca := a.(*cache.Args)
			ca.Size, ca.LazyCacheTTL = 4096, 3600
		}); err != nil {
			return nil, err
		}
		rules = append(rules, sequence.RuleArgs{Exec: "$cachel"})
		rules = append(rules, branchRules("main")...)
	default:
		return nil, fmt.Errorf("unknown branch kind %q", b.Kind)
	}
	if b.PostTTL != "" {
		rules = append(rules, sequence.RuleArgs{Exec: "ttl " + b.PostTTL})
	}
	cr.rules = rules
	seq, err := sequence.NewSequence(bq, rules)
	if err != nil {
		return nil, err
	}
	cr.seq = seq
	cr.h = server_handler.NewEntryHandler(server_handler.EntryHandlerOpts{Entry: seq})
	return cr, nil
}

// ---- oracle for the client reply ----

func (cr *chainRun) checkBranchReply(run *caseRun, reply []byte) (relayed string, rcode int) {
	c := run.c
	b := cr.desc.Branch
	run.mu.Lock()
	exch := append([]exchange(nil), run.exch...)
	hit, hitR, hitUp := run.hitAtTerm, run.hitRBytes, run.hitUpOptNonNil
	failSeen := run.failSeen
	run.mu.Unlock()
	viol := func(key, what string) {
		rep.Violation(key, what, cr.witness(run, map[string]any{"reply_to_client": hex.EncodeToString(reply), "exchanges": exch}))
	}
	if failSeen != "" {
		rep.Count("outcome:upstream_"+failSeen, 1)
	}
	if hit {
		rep.Count("cached_answers_inspected_at_terminal", 1)
		if hm, err := wire.Parse(hitR); err == nil {
			an, ns, ar := count41(hm)
			if an+ns+ar > 0 || hitUp {
				viol("opt-in-cached-answer", "a cached answer handed out by the cache plugin contained an OPT")
			}
		}
	}
	if reply == nil {
		rep.Count("no_reply", 1)
		return "noreply", -1
	}
	m, err := wire.Parse(reply)
	if err != nil {
		viol("reply-unparseable", "reply bytes from EntryHandler.Handle do not parse: "+err.Error())
		return "unparseable", -1
	}
	rcode = m.Rcode()
	rseq, rcase, rbranch, rqt, haveOrigin := relayedOrigin(m)
	relayedHere := haveOrigin && rcase == c.Idx
	switch {
	case !haveOrigin:
		relayed = fmt.Sprintf("local-rcode%d", rcode)
		if rcode == 2 || rcode == 5 {
			rep.Count(fmt.Sprintf("handler_made_replies_judged:rcode%d", rcode), 1)
			if c.Opt != nil {
				rep.Count("handler_made_replies_judged_with_client_opt", 1)
			}
		}
	case relayedHere:
		relayed = fmt.Sprintf("%s/%d", rbranch, rqt)
	default:
		relayed = "cached"
	}
	an, ns, ar := count41(m)
	want := 0
	if c.Opt != nil {
		want = 1
	}
	if an+ns+ar != want || an+ns > 0 {
		viol("opt-count-down", fmt.Sprintf("reply (rcode %d, relayed: %s) carries %d OPT records (answer %d, authority %d, additional %d) but the client query had %d", rcode, relayed, an+ns+ar, an, ns, ar, want))
		return
	}
	if want == 0 {
		return
	}
	o := m.OPTs()[0]
	if o.DO != c.Opt.DO {
		viol("do-not-mirrored", fmt.Sprintf("client DO=%v, reply OPT DO=%v (rcode %d, relayed: %s)", c.Opt.DO, o.DO, rcode, relayed))
	}
	if rest := o.TTL &^ 0x8000; rest != 0 {
		viol("opt-ttl-altered", fmt.Sprintf("reply OPT TTL field is %#08x; want version 0, no Z bits, no extended rcode (relayed: %s)", o.TTL, relayed))
	}
	named := cr.desc.namedDown(codeSet(c.Opt.Options)[8])
	// what the relayed exchange carried
	relOpts := map[string]int{}
	if relayedHere {
		for _, e := range exch {
			if e.Seq == rseq {
				for _, x := range e.Options {
					relOpts[fmt.Sprintf("%d:%x", x.Code, x.Data)]++
				}
			}
		}
	}
	seen := map[string]int{}
	for _, x := range o.Options {
		rep.Count("reply_options_seen", 1)
		seq, ok := decodeOrigin(x)
		if !ok {
			viol("reply-option-unexplained", fmt.Sprintf("reply carries option code %d (%x) that no upstream exchange produced (relayed: %s)", x.Code, x.Data, relayed))
			continue
		}
		from := "an exchange of another case"
		for _, e := range exch {
			if e.Seq == seq {
				from = fmt.Sprintf("exchange #%d of this case (branch %s, qtype %d, background=%v)", e.Seq, e.Branch, e.Qtype, e.Bg)
			}
		}
		k := fmt.Sprintf("%d:%x", x.Code, x.Data)
		switch {
		case !relayedHere || seq != rseq:
			viol("upstream-option-leaked-down", fmt.Sprintf("reply carries option code %d (%s) of %s, but the reply relayed to the client is %s (exchange #%d): options of an upstream reply that was never relayed [%s]", x.Code, show(x.Data), from, relayed, rseq, b.sig()))
		case !named[x.Code]:
			viol("upstream-option-leaked-down", fmt.Sprintf("reply carries upstream option code %d (%s) although no plugin forwards it (named codes %s) [%s]", x.Code, show(x.Data), codesStr(named), b.sig()))
		default:
			seen[k]++
			if seen[k] > relOpts[k]*b.forwarders(x.Code) {
				viol("reply-option-duplicated", fmt.Sprintf("option code %d (%s) appears %d times in the reply; the relayed reply had it %d time(s) and %d plugin(s) forward it [%s]", x.Code, show(x.Data), seen[k], relOpts[k], b.forwarders(x.Code), b.sig()))
			} else {
				rep.Count("reply_options_forwarded_explicitly", 1)
				rep.Count("branch_reply_options_attributed_to_relayed_exchange", 1)
			}
		}
	}
	return
}

func runBranchChain(desc *chainDesc) {
	caselog.Log(map[string]any{"chain": desc})
	cr, err := buildBranchChain(desc)
	if err != nil {
		rep.Inconclusive("branch chain %d could not be built: %v", desc.Idx, err)
		return
	}
	defer cr.close()
	b := desc.Branch
	rep.Count("chains", 1)
	rep.Count("branch_chains:"+b.Kind, 1)
	rep.SetAdd("chain_shapes", "BRANCH:"+b.sig())
	r := rand.New(rand.NewSource(desc.Seed*7000003 + int64(desc.Idx)*104729 + 9))
	names := make([]string, 8)
	for i := range names {
		names[i] = fmt.Sprintf("b%d.c%d.c15.test.", i, desc.Idx)
	}
	half := desc.NCases / 2
	var sampled bool
	for i := 0; i < desc.NCases; i++ {
		phase := 0
		if i >= half {
			phase = 1
		}
		if i == half && b.Kind == "lazy" {
			cr.checkDumps("after phase 0")
			time.Sleep(1100 * time.Millisecond)
		}
		c := genBranchCase(r, desc, i, phase, names)
		run := &caseRun{c: c}
		q := new(dns.Msg)
		if err := q.Unpack(c.queryBytes()); err != nil {
			rep.Count("client_queries_rejected_by_unpack", 1)
			continue
		}
		rep.Eval(1)
		meta := server.QueryMeta{FromUDP: c.FromUDP}
		if c.ClientAddr != "" {
			meta.ClientAddr = netip.MustParseAddr(c.ClientAddr)
		}
		ctx := context.WithValue(context.Background(), ctxKey{}, run)
		payload := cr.h.Handle(ctx, q, meta, pool.PackBuffer)
		var reply []byte
		if payload != nil {
			reply = append([]byte(nil), (*payload)...)
			pool.ReleaseBuf(payload)
		}
		relayed, rcode := cr.checkBranchReply(run, reply)
		if b.Kind == "replace" {
			cr.replaceEvidence(run, reply)
		}
		rep.Count("branch_cases", 1)
		rep.Count("branch_relayed:"+b.Kind+":"+relayed, 1)
		if c.Opt != nil {
			rep.Count("client_opt_present", 1)
		} else {
			rep.Count("client_opt_absent", 1)
		}
		if reply != nil {
			var ss []string
			for k, s := range c.Script {
				ss = append(ss, fmt.Sprintf("%s:%s:%v:%v:%s", k, s.Fail, s.NoAnswer, s.Codes, s.WaitFor))
			}
			sort.Strings(ss)
			rep.Nontrivial(fmt.Sprintf("BRANCH|%s|%s|%v|%s|rc%d", b.sig(), optClass(c.Opt), ss, relayed, rcode))
		}
		run.mu.Lock()
		exch := append([]exchange(nil), run.exch...)
		run.mu.Unlock()
		if !sampled && desc.Idx%8 < 4 && c.Opt != nil && len(exch) > 1 && rep.WantSample() {
			sampled = true
			rep.Sample(cr.witness(run, map[string]any{"reply_to_client": hex.EncodeToString(reply), "exchanges": exch, "relayed": relayed}))
		}
	}
	if b.Kind == "lazy" || (b.Kind == "replace" && len(desc.Pre) > 0) {
		cr.checkDumps("end of chain")
	}
}
