package main

// Configuration-text family: what makes a forward "explicit" is the text the
// operator wrote. The option-forwarding plugins are configured here from TEXT
// through mosdns' real args paths:
//   - rule-text:   sequence.NewSequence over rule strings (QuickSetup of
//                  forward_edns0opt / ecs; ecs_handler args through utils.WeakDecode),
//   - decoded-map: coremain.NewMosdns over PluginConfig values (plugin args decoder),
//   - yaml-file:   a YAML document written by an own emitter and read by
//                  coremain.NewMosdns through its include path (viper + yaml.v3 +
//                  mapstructure + plugin args decoder), exec strings in every
//                  YAML scalar style.
// The text is generated from (value, spelling) pairs, so what it DENOTES is
// known by construction and never computed with strconv: forward_edns0opt code
// lists in every spelling of a number (plain, zero-padded, +signed, 0x / 0o / 0b
// prefixed, with underscores, as a float, with trailing junk, full-width
// digits; in range, 65536 and above, beyond 32 and 64 bits, negative; separated
// by blanks, tabs, newlines, commas; duplicates; empty list), ecs_handler
// forward / send in every spelling of a boolean, mask4 / mask6 in every
// spelling of a number, preset (and the old "ecs" quick setup) in several
// spellings of an address.
// Verdict per configuration: refused at load time (always fine), or traffic
// that carries options of codes {8, 10, every denoted code, its neighbours and
// every wrap / other-base image of every number in the text} in both
// directions shows only what the text denotes: every option that crosses has a
// code the text denotes, every ECS sent upstream is the client's (forwarding
// denoted) or the one preset / send / masks denote.

import (
	"context"
	"encoding/hex"
	"errors"
	"fmt"
	"math/big"
	"math/rand"
	"net/netip"
	"os"
	"path/filepath"
	"sort"
	"strconv"
	"strings"
	"sync"

	"github.com/IrineSistiana/mosdns/v5/coremain"
	"github.com/IrineSistiana/mosdns/v5/mlog"
	"github.com/IrineSistiana/mosdns/v5/pkg/pool"
	"github.com/IrineSistiana/mosdns/v5/pkg/query_context"
	"github.com/IrineSistiana/mosdns/v5/pkg/server"
	"github.com/IrineSistiana/mosdns/v5/pkg/server_handler"
	"github.com/IrineSistiana/mosdns/v5/pkg/utils"
	"github.com/IrineSistiana/mosdns/v5/plugin/executable/sequence"
	"github.com/miekg/dns"
	"go.uber.org/zap"
	"gopkg.in/yaml.v3"

	"verifharness/lib/wire"
)

const confIdxBase = 400000
const confTermType = "c15_conf_term"

func init() {
	// the harness upstream as a configurable plugin type, so that a whole
	// configuration document can be loaded by coremain.NewMosdns
	coremain.RegNewPluginFunc(confTermType, func(*coremain.BP, any) (any, error) { return &cterm{}, nil }, func() any { return new(struct{}) })
}

// ---- descriptors ----

// numTok is one number as written in a configuration.
type numTok struct {
	Text  string `json:"text"`
	Style string `json:"spelling"`
	Class string `json:"class"`               // spelling class, or out-of-range / negative
	Value string `json:"denotes"`             // the value the text denotes, in decimal
	Reads []int  `json:"acceptable_readings"` // readings inside the field's range ([] = names nothing valid)
}

type boolTok struct {
	Text  string `json:"text"`
	Omit  bool   `json:"omitted,omitempty"`
	Reads []bool `json:"acceptable_readings"`
}

func (b *boolTok) may(v bool) bool {
	for _, x := range b.Reads {
		if x == v {
			return true
		}
	}
	return false
}

type addrTok struct {
	Text  string   `json:"text"`
	Reads []string `json:"acceptable_readings"` // canonical addresses
	// SlashMask: prefix lengths a "/n" suffix of the text can be read as (the old
	// ecs quick setup documents that it ignores the mask; honouring it is
	// acceptable as well)
	SlashMask []int `json:"slash_mask_readings,omitempty"`
}

type confEcs struct {
	Kind     string   `json:"kind"` // ecs_handler | ecs
	Forward  boolTok  `json:"forward"`
	Send     boolTok  `json:"send"`
	Preset   *addrTok `json:"preset,omitempty"`
	Mask4    *numTok  `json:"mask4,omitempty"`
	Mask6    *numTok  `json:"mask6,omitempty"`
	ArgText  string   `json:"quick_setup_args,omitempty"` // kind ecs: text after "ecs"
	AsString bool     `json:"values_handed_over_as_strings,omitempty"`
}

type confFwd struct {
	Tokens []numTok `json:"numbers"`
	Sep    string   `json:"separator"`
	Text   string   `json:"args_text"`
	Post   bool     `json:"after_the_upstream,omitempty"`
}

type confCase struct {
	Idx        int           `json:"idx"`
	Name       string        `json:"name"`
	Qclass     uint16        `json:"qclass"`
	HasOpt     bool          `json:"client_has_opt"`
	DO         bool          `json:"do"`
	ClientOpts []wire.Option `json:"client_options"`
	UpHasOpt   bool          `json:"upstream_has_opt"`
	UpOpts     []wire.Option `json:"upstream_options"`
	ClientAddr string        `json:"client_addr"`
	FromUDP    bool          `json:"from_udp"`
}

type confDesc struct {
	Idx       int      `json:"idx"`
	Seed      int64    `json:"seed"`
	Route     string   `json:"route"` // rule-text | decoded-map | yaml-file
	Fwd       *confFwd `json:"forward_edns0opt,omitempty"`
	Ecs       *confEcs `json:"ecs,omitempty"`
	EcsFirst  bool     `json:"ecs_plugin_first,omitempty"`
	ExecStyle string   `json:"yaml_scalar_style,omitempty"`
	Document  string   `json:"document,omitempty"`
	Rules     []string `json:"rules"`
	Probes    []uint16 `json:"probe_codes"`
	NCases    int      `json:"n_cases"`
}

// ---- numbers ----

var numStyles = []string{"plain", "zero-padded", "signed", "hex", "octal-prefix", "binary", "underscore", "float", "junk", "full-width"}

var (
	codeValsIn  = []string{"0", "1", "3", "5", "7", "8", "9", "10", "11", "12", "15", "16", "17", "64", "255", "256", "1000", "4096", "20000", "65001", "65002", "65535"}
	codeValsOut = []string{"65536", "65544", "65546", "65548", "131080", "131082", "458767", "4294967296", "4294967304", "4294967306", "18446744073709551624", "18446744073709551626", "100000000000000065546"}
	codeValsNeg = []string{"-1", "-8", "-10", "-65526", "-65528"}
)

func bigOf(s string) *big.Int {
	v, ok := new(big.Int).SetString(s, 10)
	if !ok {
		panic("harness: bad literal " + s)
	}
	return v
}

func validOctal(s string) bool {
	for _, c := range s {
		if c < '0' || c > '7' {
			return false
		}
	}
	return s != ""
}

// mkTok spells val. yamlScalar: the text sits where YAML itself (1.1: a leading
// zero means octal) and the weak args decoder define what a number means, so
// the octal reading of a zero-padded number is acceptable there as well.
func mkTok(r *rand.Rand, val, style string, max int64, yamlScalar bool) numTok {
	v := bigOf(val)
	neg := v.Sign() < 0
	abs := new(big.Int).Abs(v)
	dec := abs.String()
	digits := dec
	switch style {
	case "zero-padded":
		digits = strings.Repeat("0", 1+r.Intn(3)) + dec
	case "signed":
		if !neg {
			digits = "+" + dec
		}
	case "hex":
		if r.Intn(2) == 0 {
			digits = "0x" + abs.Text(16)
		} else {
			digits = "0X" + strings.ToUpper(abs.Text(16))
		}
	case "octal-prefix":
		digits = []string{"0o", "0O"}[r.Intn(2)] + abs.Text(8)
	case "binary":
		digits = []string{"0b", "0B"}[r.Intn(2)] + abs.Text(2)
	case "underscore":
		if len(dec) >= 2 {
			p := 1 + r.Intn(len(dec)-1)
			digits = dec[:p] + "_" + dec[p:]
		} else {
			digits = "0x_" + abs.Text(16)
		}
	case "float":
		digits = dec + []string{".0", "e0", ".00"}[r.Intn(3)]
	case "junk":
		digits = dec + []string{"a", ";", ",", "h", ".", "/24", "'"}[r.Intn(7)]
	case "full-width":
		digits = ""
		for _, c := range dec {
			digits += string(rune(0xFF10 + (c - '0')))
		}
	}
	t := numTok{Style: style, Class: style, Value: v.String(), Reads: []int{}}
	t.Text = digits
	if neg {
		t.Text = "-" + digits
	}
	cands := []*big.Int{v}
	if style == "zero-padded" && yamlScalar && !neg && validOctal(dec) {
		o, _ := new(big.Int).SetString(dec, 8)
		cands = append(cands, o)
	}
	for _, c := range cands {
		if c.Sign() >= 0 && c.IsInt64() && c.Int64() <= max {
			t.Reads = append(t.Reads, int(c.Int64()))
		}
	}
	switch {
	case neg:
		t.Class = "negative"
	case !v.IsInt64() || v.Int64() > max:
		t.Class = "out-of-range"
	}
	return t
}

func (t *numTok) reads(code uint16) bool {
	for _, x := range t.Reads {
		if x == int(code) {
			return true
		}
	}
	return false
}

// images: the 16-bit codes a careless reader could make of the text (workload
// only - which options to put into the traffic; the oracle never uses it to
// decide what is allowed).
func (t *numTok) images() []uint16 { return t.imagesOf(true) }

func (t *numTok) imagesOf(neighbours bool) []uint16 {
	seen := map[uint16]bool{}
	var out []uint16
	add := func(v *big.Int) {
		m := new(big.Int).Mod(v, big.NewInt(65536)) // Euclidean: two's complement truncation
		c := uint16(m.Int64())
		if !seen[c] {
			seen[c] = true
			out = append(out, c)
		}
	}
	if v, ok := new(big.Int).SetString(t.Value, 10); ok {
		add(v)
		add(new(big.Int).Abs(v))
		if hi := new(big.Int).Rsh(new(big.Int).Abs(v), 16); hi.Sign() > 0 {
			add(hi)
		}
		add(new(big.Int).Mod(v, big.NewInt(256)))
		if len(t.Reads) > 0 && neighbours {
			add(new(big.Int).Add(v, big.NewInt(1)))
			add(new(big.Int).Sub(v, big.NewInt(1)))
		}
	}
	core := strings.TrimLeft(t.Text, "+-")
	for _, p := range []string{"0x", "0X", "0o", "0O", "0b", "0B"} {
		core = strings.TrimPrefix(core, p)
	}
	core = strings.ReplaceAll(core, "_", "")
	if i := strings.IndexFunc(core, func(c rune) bool {
		return !(c >= '0' && c <= '9' || c >= 'a' && c <= 'f' || c >= 'A' && c <= 'F')
	}); i >= 0 {
		core = core[:i]
	}
	for _, base := range []int{2, 8, 10, 16} {
		if v, ok := new(big.Int).SetString(core, base); ok && core != "" {
			add(v)
		}
	}
	if n, err := strconv.ParseInt(t.Text, 0, 64); err == nil {
		add(big.NewInt(n))
	}
	return out
}

var confSeps = []string{"space", "space", "spaces", "tab", "newline", "comma", "comma-space", "lead-trail", "semicolon"}

func joinToks(toks []numTok, sep string) string {
	var ss []string
	for _, t := range toks {
		ss = append(ss, t.Text)
	}
	switch sep {
	case "spaces":
		return strings.Join(ss, "   ")
	case "tab":
		return strings.Join(ss, "\t")
	case "newline":
		return strings.Join(ss, "\n")
	case "comma":
		return strings.Join(ss, ",")
	case "comma-space":
		return strings.Join(ss, ", ")
	case "semicolon":
		return strings.Join(ss, ";")
	case "lead-trail":
		return "  " + strings.Join(ss, " ") + " \t"
	}
	return strings.Join(ss, " ")
}

// ---- booleans and addresses ----

type boolSpelling struct {
	text  string
	reads []bool
}

var (
	bT  = []bool{true}
	bF  = []bool{false}
	bTF = []bool{true, false}
)

var boolSpellings = []boolSpelling{
	{"true", bT}, {"True", bT}, {"TRUE", bT}, {"yes", bT}, {"Yes", bT}, {"on", bT}, {"y", bT}, {"1", bT}, {`"true"`, bT}, {`"1"`, bT}, {`'t'`, bT}, {`"T"`, bT}, {"0x1", bT}, {"01", bT},
	{"false", bF}, {"False", bF}, {"FALSE", bF}, {"no", bF}, {"No", bF}, {"off", bF}, {"n", bF}, {"0", bF}, {`"false"`, bF}, {`"0"`, bF}, {`'f'`, bF}, {`"F"`, bF}, {"~", bF}, {"null", bF}, {"", bF}, {`""`, bF}, {"0x0", bF}, {"00", bF}, {"0.0", bF}, {"-0", bF},
	{"2", bTF}, {"-1", bTF}, {"0.5", bTF}, {`"2"`, bTF}, {"10", bTF}, {`"yes please"`, bTF}, {"maybe", bTF}, {`"00"`, bTF}, {`"01"`, bTF}, {"[]", bTF}, {"[true]", bTF}, {"[false]", bTF},
}

func genBool(r *rand.Rand, wantFalseBias int) boolTok {
	if r.Intn(4) == 0 {
		return boolTok{Omit: true, Reads: bF}
	}
	s := boolSpellings[r.Intn(len(boolSpellings))]
	for i := 0; i < wantFalseBias && len(s.reads) != 1; i++ {
		s = boolSpellings[r.Intn(len(boolSpellings))]
	}
	return boolTok{Text: s.text, Reads: append([]bool(nil), s.reads...)}
}

var addrSpellings = []addrTok{
	{Text: "203.0.113.77", Reads: []string{"203.0.113.77"}},
	{Text: "::ffff:203.0.113.77", Reads: []string{"203.0.113.77"}},
	{Text: "::ffff:cb00:714d", Reads: []string{"203.0.113.77"}},
	{Text: "::FFFF:203.0.113.77", Reads: []string{"203.0.113.77"}},
	{Text: "203.0.113.077", Reads: []string{"203.0.113.77", "203.0.113.63"}},
	{Text: "203.000.113.77", Reads: []string{"203.0.113.77"}},
	{Text: "0xcb.0.113.77", Reads: []string{"203.0.113.77"}},
	{Text: "3405803853", Reads: []string{"203.0.113.77"}},
	{Text: "203.0.113.77/24", Reads: []string{"203.0.113.77"}, SlashMask: []int{24}},
	{Text: "203.0.113.77/010", Reads: []string{"203.0.113.77"}, SlashMask: []int{10, 8}},
	{Text: "203.0.113.77:53", Reads: []string{"203.0.113.77"}},
	{Text: "203.0.113", Reads: []string{"203.0.0.113", "203.0.113.0"}},
	{Text: " 203.0.113.77", Reads: []string{"203.0.113.77"}},
	{Text: "2001:db8:5:6:7::1", Reads: []string{"2001:db8:5:6:7::1"}},
	{Text: "2001:DB8:5:6:7::1", Reads: []string{"2001:db8:5:6:7::1"}},
	{Text: "2001:0db8:0005:0006:0007:0000:0000:0001", Reads: []string{"2001:db8:5:6:7::1"}},
	{Text: "2001:db8:5:6:7:0:0:1", Reads: []string{"2001:db8:5:6:7::1"}},
	{Text: "[2001:db8:5:6:7::1]", Reads: []string{"2001:db8:5:6:7::1"}},
	{Text: "2001:db8:5:6:7::1%eth0", Reads: []string{"2001:db8:5:6:7::1"}},
	{Text: "2001:db8:5:6:7::1/48", Reads: []string{"2001:db8:5:6:7::1"}, SlashMask: []int{48}},
	{Text: "2001:db8:5:6:7::0.0.0.1", Reads: []string{"2001:db8:5:6:7::1"}},
	{Text: "192.0.2.130", Reads: []string{"192.0.2.130"}},
}

var (
	maskVals4 = []string{"0", "1", "8", "10", "12", "16", "17", "24", "25", "31", "32", "33", "40", "100", "256", "264", "280", "65560", "4294967320", "-1", "-8", "-232"}
	maskVals6 = []string{"0", "8", "10", "32", "48", "56", "61", "64", "100", "120", "128", "129", "140", "256", "304", "65584", "4294967344", "-1", "-80"}
)

// ---- generation ----

func genConfFwd(r *rand.Rand, toks []numTok) *confFwd {
	f := &confFwd{Tokens: toks, Sep: confSeps[r.Intn(len(confSeps))]}
	if len(toks) < 2 && f.Sep != "lead-trail" {
		f.Sep = "space"
	}
	f.Text = joinToks(toks, f.Sep)
	return f
}

func randCodeTok(r *rand.Rand) numTok {
	var val string
	switch x := r.Intn(10); {
	case x < 6:
		val = codeValsIn[r.Intn(len(codeValsIn))]
	case x < 9:
		val = codeValsOut[r.Intn(len(codeValsOut))]
	default:
		val = codeValsNeg[r.Intn(len(codeValsNeg))]
	}
	style := numStyles[r.Intn(len(numStyles))]
	if r.Intn(3) == 0 {
		style = "plain"
	}
	return mkTok(r, val, style, 65535, false)
}

func genConfEcs(r *rand.Rand, route string) *confEcs {
	e := &confEcs{Kind: "ecs_handler"}
	if r.Intn(5) == 0 {
		e.Kind = "ecs"
		a := addrSpellings[r.Intn(len(addrSpellings))]
		switch r.Intn(6) {
		case 0:
			e.ArgText = "" // no preset
		case 1:
			e.Preset = &a
			e.ArgText = a.Text + " 2001:db8::2/48" // old dual-stack form: second address ignored
		default:
			e.Preset = &a
			e.ArgText = a.Text
		}
		e.Forward, e.Send = boolTok{Omit: true, Reads: bF}, boolTok{Omit: true, Reads: bF}
		return e
	}
	e.Forward = genBool(r, 2)
	e.Send = genBool(r, 1)
	if r.Intn(2) == 0 {
		a := addrSpellings[r.Intn(len(addrSpellings))]
		e.Preset = &a
	}
	pickMask := func(vals []string, max int64) *numTok {
		if r.Intn(3) == 0 {
			return nil
		}
		style := numStyles[r.Intn(len(numStyles))]
		if r.Intn(3) == 0 {
			style = "plain"
		}
		t := mkTok(r, vals[r.Intn(len(vals))], style, max, true)
		return &t
	}
	e.Mask4 = pickMask(maskVals4, 32)
	e.Mask6 = pickMask(maskVals6, 128)
	e.AsString = route != "yaml-file" && r.Intn(2) == 0
	return e
}

var confRoutes = []string{"rule-text", "decoded-map", "yaml-file"}

// genConf: idx selects the systematic part (every number x every spelling on
// every route, alone or with an ordinary companion), the rest is random.
func genConf(seed int64, idx, gridN int) *confDesc {
	r := rand.New(rand.NewSource(seed*1000003 + int64(idx)*7919 + 41))
	d := &confDesc{Idx: idx, Seed: seed, NCases: 3}
	k := idx - confIdxBase
	all := append(append(append([]string{}, codeValsIn...), codeValsOut...), codeValsNeg...)
	nGrid := len(all) * len(numStyles)
	switch {
	case k < gridN:
		g := k % nGrid
		d.Route = confRoutes[(k/nGrid+int(seed))%3]
		t := mkTok(r, all[g/len(numStyles)], numStyles[g%len(numStyles)], 65535, false)
		toks := []numTok{t}
		if r.Intn(2) == 0 {
			c := mkTok(r, []string{"8", "10", "12", "65001", "3"}[r.Intn(5)], "plain", 65535, false)
			if r.Intn(2) == 0 {
				toks = []numTok{c, t}
			} else {
				toks = []numTok{t, c}
			}
		}
		d.Fwd = genConfFwd(r, toks)
		if r.Intn(6) == 0 {
			d.Ecs = genConfEcs(r, d.Route)
		}
	case k%2 == 0:
		// random lists
		d.Route = confRoutes[r.Intn(3)]
		n := []int{0, 1, 2, 2, 3, 3, 4, 5, 8}[r.Intn(9)]
		var toks []numTok
		ordinary := r.Intn(2) == 0 // lists an operator would normally write, with at most the odd unusual number
		for i := 0; i < n; i++ {
			if ordinary && r.Intn(10) != 0 {
				toks = append(toks, mkTok(r, codeValsIn[r.Intn(len(codeValsIn))], []string{"plain", "plain", "plain", "zero-padded"}[r.Intn(4)], 65535, false))
				continue
			}
			toks = append(toks, randCodeTok(r))
		}
		if n > 1 && r.Intn(4) == 0 {
			toks = append(toks, toks[r.Intn(len(toks))]) // duplicate
		}
		d.Fwd = genConfFwd(r, toks)
		d.Fwd.Post = r.Intn(6) == 0
		if r.Intn(3) == 0 {
			d.Ecs = genConfEcs(r, d.Route)
		}
	default:
		// ecs-centred
		d.Route = confRoutes[r.Intn(3)]
		d.Ecs = genConfEcs(r, d.Route)
		if r.Intn(2) == 0 {
			var toks []numTok
			for i := r.Intn(3); i > 0; i-- {
				toks = append(toks, mkTok(r, []string{"10", "12", "65001", "3", "8"}[r.Intn(5)], []string{"plain", "plain", "zero-padded"}[r.Intn(3)], 65535, false))
			}
			d.Fwd = genConfFwd(r, toks)
		}
	}
	d.EcsFirst = r.Intn(2) == 0
	d.ExecStyle = []string{"plain", "plain", "single", "double", "literal"}[r.Intn(5)]

	// rules
	var pre []string
	fwdRule := ""
	if d.Fwd != nil {
		fwdRule = "forward_edns0opt " + d.Fwd.Text
		if d.Fwd.Text == "" {
			fwdRule = "forward_edns0opt"
		}
	}
	ecsRule := ""
	if d.Ecs != nil {
		ecsRule = "$eh"
		if d.Ecs.Kind == "ecs" {
			ecsRule = "ecs " + d.Ecs.ArgText
			if d.Ecs.ArgText == "" {
				ecsRule = "ecs"
			}
		}
	}
	if d.EcsFirst && ecsRule != "" {
		pre = append(pre, ecsRule)
	}
	if fwdRule != "" && !d.Fwd.Post {
		pre = append(pre, fwdRule)
	}
	if !d.EcsFirst && ecsRule != "" {
		pre = append(pre, ecsRule)
	}
	d.Rules = append(pre, "$up")
	if fwdRule != "" && d.Fwd.Post {
		d.Rules = append(d.Rules, fwdRule)
	}

	// probe codes: denoted codes first, then 8 and 10, then every image
	seen := map[uint16]bool{}
	add := func(c uint16) {
		if !seen[c] && len(d.Probes) < 40 {
			seen[c] = true
			d.Probes = append(d.Probes, c)
		}
	}
	if d.Fwd != nil {
		for _, t := range d.Fwd.Tokens {
			for _, x := range t.Reads {
				add(uint16(x))
			}
		}
	}
	add(8)
	add(10)
	if d.Fwd != nil {
		for _, t := range d.Fwd.Tokens {
			for _, c := range t.images() {
				add(c)
			}
		}
	}
	add(12)
	add(65001)
	if d.Route == "yaml-file" {
		d.Document = d.renderYAML()
	}
	return d
}

// ---- YAML emitter ----

func yamlDouble(s string) string {
	var b strings.Builder
	b.WriteByte('"')
	for _, c := range s {
		switch {
		case c == '"':
			b.WriteString(`\"`)
		case c == '\\':
			b.WriteString(`\\`)
		case c == '\n':
			b.WriteString(`\n`)
		case c == '\t':
			b.WriteString(`\t`)
		case c < 0x20:
			fmt.Fprintf(&b, `\x%02x`, c)
		default:
			b.WriteRune(c)
		}
	}
	b.WriteByte('"')
	return b.String()
}

// yamlScalar renders "key: value" for a string value in the given style.
func yamlScalar(indent, key, s, style string) string {
	switch style {
	case "plain":
		return indent + key + ": " + s + "\n"
	case "single":
		return indent + key + ": '" + strings.ReplaceAll(s, "'", "''") + "'\n"
	case "literal":
		out := indent + key + ": |-\n"
		for _, l := range strings.Split(s, "\n") {
			out += indent + "  " + l + "\n"
		}
		return out
	}
	return indent + key + ": " + yamlDouble(s) + "\n"
}

func (d *confDesc) yamlWith(style string) string {
	var b strings.Builder
	b.WriteString("plugins:\n  - tag: up\n    type: " + confTermType + "\n")
	if e := d.Ecs; e != nil && e.Kind == "ecs_handler" {
		b.WriteString("  - tag: eh\n    type: ecs_handler\n")
		var lines []string
		raw := func(key string, omit bool, text string) {
			if !omit {
				lines = append(lines, "      "+key+": "+text+"\n")
			}
		}
		raw("forward", e.Forward.Omit, e.Forward.Text)
		raw("send", e.Send.Omit, e.Send.Text)
		if e.Preset != nil {
			lines = append(lines, "      preset: "+yamlDouble(e.Preset.Text)+"\n")
		}
		if e.Mask4 != nil {
			raw("mask4", false, e.Mask4.Text)
		}
		if e.Mask6 != nil {
			raw("mask6", false, e.Mask6.Text)
		}
		if len(lines) > 0 {
			b.WriteString("    args:\n" + strings.Join(lines, ""))
		}
	}
	b.WriteString("  - tag: main\n    type: sequence\n    args:\n")
	for _, rule := range d.Rules {
		st := style
		if !strings.HasPrefix(rule, "forward_edns0opt") && !strings.HasPrefix(rule, "ecs") {
			st = "double"
		}
		s := yamlScalar("        ", "exec", rule, st)
		b.WriteString("      - " + strings.TrimPrefix(s, "        "))
	}
	return b.String()
}

type yamlBack struct {
	Plugins []struct {
		Tag  string `yaml:"tag"`
		Type string `yaml:"type"`
		Args any    `yaml:"args"`
	} `yaml:"plugins"`
}

// execsOf parses doc with yaml.v3 (the parser viper uses) and returns the exec
// strings of the sequence: the document must mean the intended rule text.
func execsOf(doc string) ([]string, error) {
	var back yamlBack
	if err := yaml.Unmarshal([]byte(doc), &back); err != nil {
		return nil, err
	}
	for _, p := range back.Plugins {
		if p.Tag != "main" {
			continue
		}
		l, _ := p.Args.([]any)
		var out []string
		for _, x := range l {
			m, _ := x.(map[string]any)
			s, ok := m["exec"].(string)
			if !ok {
				return nil, fmt.Errorf("exec is %T", m["exec"])
			}
			out = append(out, s)
		}
		return out, nil
	}
	return nil, errors.New("no sequence")
}

func sameStrings(a, b []string) bool {
	if len(a) != len(b) {
		return false
	}
	for i := range a {
		if a[i] != b[i] {
			return false
		}
	}
	return true
}

func (d *confDesc) renderYAML() string {
	doc := d.yamlWith(d.ExecStyle)
	if got, err := execsOf(doc); err == nil && sameStrings(got, d.Rules) {
		return doc
	}
	// this text cannot be written in that style (leading blanks, tabs, line
	// breaks ...): double quoted always can
	d.ExecStyle = "double"
	return d.yamlWith("double")
}

// ---- harness upstream ----

type confKey struct{}

type confRun struct {
	c       *confCase
	upQuery [][]byte
	upReply []byte
	termErr string
}

type cterm struct{}

func (*cterm) Exec(ctx context.Context, qCtx *query_context.Context) error {
	run, _ := ctx.Value(confKey{}).(*confRun)
	if run == nil {
		return errors.New("harness: unknown query context")
	}
	payload, err := pool.PackBuffer(qCtx.Q())
	if err != nil {
		run.termErr = "pack Q(): " + err.Error()
		return err
	}
	qb := append([]byte(nil), (*payload)...)
	pool.ReleaseBuf(payload)
	run.upQuery = append(run.upQuery, qb)
	uq, err := wire.Parse(qb)
	if err != nil || len(uq.Questions) != 1 {
		run.termErr = "upstream cannot parse the query"
		return errors.New("harness upstream cannot parse query")
	}
	q0 := uq.Questions[0]
	rb := wire.NewBuilder(uq.ID, 0x8000|(uq.Flags&0x0100)|0x0080)
	rb.Question(q0.RawName, q0.Type, q0.Class)
	rb.RR(0, q0.RawName, 1, q0.Class, 300, []byte{203, 0, 113, 9})
	if run.c.UpHasOpt {
		rb.OPT(1232, 0, 0, false, 0, run.c.UpOpts)
	}
	run.upReply = rb.Bytes()
	r := new(dns.Msg)
	if err := r.Unpack(run.upReply); err != nil {
		run.termErr = "unpack scripted reply: " + err.Error()
		return errors.New("all upstream servers failed")
	}
	qCtx.SetResponse(r)
	return nil
}

// confData: a payload miekg/dns accepts for the code, naming its origin
// ('c' client / 'u' upstream) in its first byte where the format leaves room.
func confData(code uint16, origin byte, idx int) []byte {
	switch code {
	case 8:
		if origin == 'c' {
			return []byte{0, 1, 24, 0, 10, byte(idx), 99}
		}
		return []byte{0, 1, 24, 16, 172, 16, byte(idx)}
	case 1:
		d := make([]byte, 18)
		d[17] = origin
		return d
	case 2, 9:
		return []byte{origin, 0, 0, byte(idx)}
	case 11:
		return []byte{origin, 1}
	case 15:
		return []byte{0, 3, origin, byte('0' + idx%10)}
	}
	return []byte(fmt.Sprintf("%c:%d:%d", origin, code, idx))
}

func sameOpt(a wire.Option, code uint16, data []byte) bool {
	if a.Code != code {
		return false
	}
	if code == 8 {
		x, ok1 := normECS(a.Data)
		y, ok2 := normECS(data)
		return ok1 && ok2 && x == y
	}
	return string(a.Data) == string(data)
}

func genConfCase(r *rand.Rand, d *confDesc, idx int) *confCase {
	c := &confCase{Idx: idx, Name: fmt.Sprintf("k%d.c%d.c15.test.", idx, d.Idx), Qclass: 1, HasOpt: true, UpHasOpt: true,
		DO: r.Intn(2) == 0, FromUDP: r.Intn(2) == 0, ClientAddr: clientAddrs[r.Intn(len(clientAddrs))],
		ClientOpts: []wire.Option{}, UpOpts: []wire.Option{}}
	probes := append([]uint16(nil), d.Probes...)
	r.Shuffle(len(probes), func(i, j int) { probes[i], probes[j] = probes[j], probes[i] })
	for _, p := range probes {
		inC, inU := true, true
		if idx >= 1 { // idx 0: every probe code in both directions
			inC, inU = r.Intn(2) == 0, r.Intn(2) == 0
		}
		if inC {
			c.ClientOpts = append(c.ClientOpts, wire.Option{Code: p, Data: confData(p, 'c', idx)})
		}
		if inU {
			c.UpOpts = append(c.UpOpts, wire.Option{Code: p, Data: confData(p, 'u', idx)})
		}
	}
	if idx >= 2 {
		switch r.Intn(5) {
		case 0:
			c.HasOpt, c.ClientOpts = false, []wire.Option{}
		case 1:
			c.UpHasOpt, c.UpOpts = false, []wire.Option{}
		case 2:
			c.Qclass = 3 // CH: ecs_handler must not add an ECS
		}
	}
	return c
}

func (c *confCase) queryBytes() []byte {
	b := wire.NewBuilder(uint16(4000+c.Idx), 0x0100)
	b.Question(wire.EncodeName(c.Name), 1, c.Qclass)
	if c.HasOpt {
		b.OPT(1232, 0, 0, c.DO, 0, c.ClientOpts)
	}
	return b.Bytes()
}

// ---- loading through the real args paths ----

type confLoaded struct {
	h     *server_handler.EntryHandler
	close func()
}

func yamlValueOf(text string) any {
	var v any
	if err := yaml.Unmarshal([]byte(text), &v); err != nil {
		return text
	}
	return v
}

func (e *confEcs) argsMap() map[string]any {
	m := map[string]any{}
	put := func(key string, omit bool, text string) {
		if omit {
			return
		}
		if e.AsString {
			s := text
			if len(s) >= 2 && (s[0] == '"' && s[len(s)-1] == '"' || s[0] == '\'' && s[len(s)-1] == '\'') {
				s = s[1 : len(s)-1]
			}
			m[key] = s
			return
		}
		m[key] = yamlValueOf(text)
	}
	put("forward", e.Forward.Omit, e.Forward.Text)
	put("send", e.Send.Omit, e.Send.Text)
	if e.Preset != nil {
		m["preset"] = e.Preset.Text
	}
	if e.Mask4 != nil {
		put("mask4", false, e.Mask4.Text)
	}
	if e.Mask6 != nil {
		put("mask6", false, e.Mask6.Text)
	}
	return m
}

func (d *confDesc) load(dir string) (*confLoaded, error) {
	fromMosdns := func(cfg *coremain.Config) (*confLoaded, error) {
		cfg.Log = mlog.LogConfig{Level: "error"}
		m, err := coremain.NewMosdns(cfg)
		if err != nil {
			return nil, err
		}
		closeM := func() {
			m.CloseWithErr(nil)
			_ = m.GetSafeClose().WaitClosed()
		}
		seq, _ := m.GetPlugin("main").(*sequence.Sequence)
		if seq == nil {
			closeM()
			return nil, errHarness
		}
		return &confLoaded{h: server_handler.NewEntryHandler(server_handler.EntryHandlerOpts{Entry: seq}), close: closeM}, nil
	}
	switch d.Route {
	case "yaml-file":
		p := filepath.Join(dir, fmt.Sprintf("conf-%d.yaml", d.Idx))
		if err := os.WriteFile(p, []byte(d.Document), 0o644); err != nil {
			return nil, errHarness
		}
		defer os.Remove(p)
		return fromMosdns(&coremain.Config{Include: []string{p}})
	case "decoded-map":
		cfg := &coremain.Config{Plugins: []coremain.PluginConfig{{Tag: "up", Type: confTermType}}}
		if d.Ecs != nil && d.Ecs.Kind == "ecs_handler" {
			cfg.Plugins = append(cfg.Plugins, coremain.PluginConfig{Tag: "eh", Type: "ecs_handler", Args: d.Ecs.argsMap()})
		}
		var rules []any
		for _, s := range d.Rules {
			rules = append(rules, map[string]any{"exec": s})
		}
		cfg.Plugins = append(cfg.Plugins, coremain.PluginConfig{Tag: "main", Type: "sequence", Args: rules})
		return fromMosdns(cfg)
	}
	// rule-text
	plugins := map[string]any{"up": &cterm{}}
	m := coremain.NewTestMosdnsWithPlugins(plugins)
	if d.Ecs != nil && d.Ecs.Kind == "ecs_handler" {
		info, ok := coremain.GetPluginType("ecs_handler")
		if !ok {
			return nil, errHarness
		}
		args := info.NewArgs()
		if err := utils.WeakDecode(d.Ecs.argsMap(), args); err != nil {
			return nil, err
		}
		p, err := info.NewPlugin(coremain.NewBP("eh", m), args)
		if err != nil {
			return nil, err
		}
		plugins["eh"] = p
	}
	var ra []sequence.RuleArgs
	for _, s := range d.Rules {
		ra = append(ra, sequence.RuleArgs{Exec: s})
	}
	seq, err := sequence.NewSequence(sequence.NewBQ(m, zap.NewNop()), ra)
	if err != nil {
		return nil, err
	}
	return &confLoaded{h: server_handler.NewEntryHandler(server_handler.EntryHandlerOpts{Entry: seq}), close: func() { _ = seq.Close() }}, nil
}

var errHarness = errors.New("harness: configuration could not be set up")

// ---- what the text denotes ----

func (d *confDesc) denoted() map[uint16]bool {
	m := map[uint16]bool{}
	if d.Fwd != nil {
		for _, t := range d.Fwd.Tokens {
			for _, x := range t.Reads {
				m[uint16(x)] = true
			}
		}
	}
	return m
}

// canonical: every number is an ordinary in-range decimal separated by blanks,
// every ecs argument an ordinary one: mosdns has no reason to refuse it.
func (d *confDesc) canonical() bool {
	if d.Fwd != nil {
		for _, t := range d.Fwd.Tokens {
			if t.Class != "plain" {
				return false
			}
		}
		if d.Fwd.Sep != "space" && d.Fwd.Sep != "spaces" && d.Fwd.Sep != "tab" && d.Fwd.Sep != "lead-trail" {
			return false
		}
	}
	return d.Ecs == nil
}

func maskReads(t *numTok) []int {
	if t == nil {
		return []int{0}
	}
	return t.Reads
}

// denotedECS: every ECS option the ecs plugin may generate for this client.
func (d *confDesc) denotedECS(clientAddr string) []ecsNorm {
	e := d.Ecs
	if e == nil {
		return nil
	}
	var addrs []netip.Addr
	if e.Preset != nil {
		for _, s := range e.Preset.Reads {
			addrs = append(addrs, netip.MustParseAddr(s))
		}
	}
	if e.Send.may(true) && clientAddr != "" {
		addrs = append(addrs, netip.MustParseAddr(clientAddr))
	}
	var out []ecsNorm
	for i, a := range addrs {
		// the mask of the address family decides; the other one plays no part
		m4s, m6s := append([]int(nil), maskReads(e.Mask4)...), append([]int(nil), maskReads(e.Mask6)...)
		if e.Preset != nil && i < len(e.Preset.Reads) && e.Kind == "ecs" {
			m4s, m6s = append(m4s, e.Preset.SlashMask...), append(m6s, e.Preset.SlashMask...)
		}
		if a.Unmap().Is4() {
			for _, m4 := range m4s {
				out = append(out, genECSFor(a, m4, 0))
			}
		} else {
			for _, m6 := range m6s {
				out = append(out, genECSFor(a, 0, m6))
			}
		}
	}
	return out
}

func (d *confDesc) sig() string {
	var cl []string
	if d.Fwd != nil {
		for _, t := range d.Fwd.Tokens {
			cl = append(cl, t.Class+"/"+t.Style)
		}
		sort.Strings(cl)
		cl = append(cl, "sep="+d.Fwd.Sep)
		if d.Fwd.Post {
			cl = append(cl, "post")
		}
	}
	if e := d.Ecs; e != nil {
		cl = append(cl, fmt.Sprintf("%s:f=%q,s=%q", e.Kind, e.Forward.Text, e.Send.Text))
		if e.Mask4 != nil {
			cl = append(cl, "m4="+e.Mask4.Class+"/"+e.Mask4.Style)
		}
		if e.Mask6 != nil {
			cl = append(cl, "m6="+e.Mask6.Class+"/"+e.Mask6.Style)
		}
		if e.Preset != nil {
			cl = append(cl, "p="+e.Preset.Text)
		}
	}
	return strings.Join(cl, ",")
}

func sortedCodes(m map[uint16]bool) []int {
	var k []int
	for c := range m {
		k = append(k, int(c))
	}
	sort.Ints(k)
	return k
}

// ---- running one configuration ----

var confSampleMu sync.Mutex
var confSamples int

func runConf(d *confDesc, dir string) {
	caselog.Log(map[string]any{"conf": d})
	rep.Count("conf_configurations", 1)
	rep.Count("conf_configurations:"+d.Route, 1)
	if d.Route == "yaml-file" {
		rep.Count("conf_yaml_exec_scalar_style:"+d.ExecStyle, 1)
		if got, err := execsOf(d.Document); err != nil || !sameStrings(got, d.Rules) {
			rep.Inconclusive("configuration %d: the generated YAML document does not mean the intended rule text (%v)", d.Idx, err)
			return
		}
	}
	if d.Fwd != nil {
		for _, t := range d.Fwd.Tokens {
			rep.SetAdd("conf_number_spellings", t.Class+"/"+t.Style)
		}
		rep.SetAdd("conf_separators", d.Fwd.Sep)
	}
	ld, err := d.load(dir)
	if err != nil {
		if err == errHarness {
			rep.Inconclusive("configuration %d could not be set up by the harness", d.Idx)
			return
		}
		rep.Count("conf_refused_at_load", 1)
		rep.Count("conf_refused_at_load:"+d.Route, 1)
		if d.Fwd != nil {
			for _, t := range d.Fwd.Tokens {
				rep.Count("conf_refused_with_number_class:"+t.Class, 1)
			}
		}
		if d.canonical() {
			rep.Inconclusive("configuration %d (%q, route %s) uses only ordinary decimal codes and was refused: %v", d.Idx, d.Rules, d.Route, err)
		}
		rep.Nontrivial(fmt.Sprintf("CONF|%s|%s|%s|refused", d.Route, d.ExecStyle, d.sig()))
		return
	}
	defer ld.close()
	rep.Count("conf_loaded", 1)
	rep.Count("conf_loaded:"+d.Route, 1)
	if d.Fwd != nil {
		for _, t := range d.Fwd.Tokens {
			rep.Count("conf_loaded_with_number_class:"+t.Class, 1)
			rep.SetAdd("conf_number_spellings_accepted", t.Class+"/"+t.Style)
		}
	}
	if e := d.Ecs; e != nil {
		rep.Count("conf_loaded_with_"+e.Kind, 1)
		if !e.Forward.Omit {
			rep.SetAdd("conf_bool_spellings_accepted", e.Forward.Text)
		}
		if !e.Send.Omit {
			rep.SetAdd("conf_bool_spellings_accepted", e.Send.Text)
		}
		if e.Preset != nil {
			rep.SetAdd("conf_preset_spellings_accepted", e.Preset.Text)
		}
		for _, m := range []*numTok{e.Mask4, e.Mask6} {
			if m != nil {
				rep.SetAdd("conf_mask_spellings_accepted", m.Class+"/"+m.Style)
			}
		}
	}

	r := rand.New(rand.NewSource(d.Seed*7000003 + int64(d.Idx)*104729 + 13))
	den := d.denoted()
	fwdUp := map[uint16]bool{}
	fwdDown := map[uint16]bool{}
	for i := 0; i < d.NCases; i++ {
		c := genConfCase(r, d, i)
		run := &confRun{c: c}
		q := new(dns.Msg)
		if err := q.Unpack(c.queryBytes()); err != nil {
			rep.Inconclusive("configuration %d: generated client query does not unpack: %v", d.Idx, err)
			return
		}
		rep.Eval(1)
		rep.Count("conf_cases", 1)
		meta := server.QueryMeta{FromUDP: c.FromUDP}
		if c.ClientAddr != "" {
			meta.ClientAddr = netip.MustParseAddr(c.ClientAddr)
		}
		ctx := context.WithValue(context.Background(), confKey{}, run)
		payload := ld.h.Handle(ctx, q, meta, pool.PackBuffer)
		var reply []byte
		if payload != nil {
			reply = append([]byte(nil), (*payload)...)
			pool.ReleaseBuf(payload)
		}
		d.judge(run, reply, den, fwdUp, fwdDown)
	}
	rep.Nontrivial(fmt.Sprintf("CONF|%s|%s|%s|loaded|up=%v|down=%v", d.Route, d.ExecStyle, d.sig(), sortedCodes(fwdUp), sortedCodes(fwdDown)))
	if len(fwdUp)+len(fwdDown) > 0 && d.Idx%97 == 0 {
		confSampleMu.Lock()
		ok := confSamples < 2
		if ok {
			confSamples++
		}
		confSampleMu.Unlock()
		if ok {
			rep.Sample(map[string]any{"conf": d, "codes_forwarded_up": sortedCodes(fwdUp), "codes_forwarded_down": sortedCodes(fwdDown), "codes_the_text_denotes": sortedCodes(den)})
		}
	}
}

// blame names the number of the text whose careless reading explains code.
func (d *confDesc) blame(code uint16) (class, note string) {
	if d.Fwd != nil {
		// unusual spellings and wrap / other-base readings first, ordinary numbers and mere neighbours last
		for _, pass := range []struct{ plain, nb bool }{{false, false}, {true, false}, {false, true}, {true, true}} {
			nb := pass.nb
			for _, t := range d.Fwd.Tokens {
				if t.reads(code) || (t.Class == "plain") != pass.plain {
					continue
				}
				for _, im := range t.imagesOf(nb) {
					if im == code {
						return t.Class, fmt.Sprintf("; the number %q (%s spelling of %s, acceptable readings %v) has been read as %d", t.Text, t.Style, t.Value, t.Reads, code)
					}
				}
			}
		}
	}
	return "unattributed", ""
}

func (d *confDesc) judge(run *confRun, reply []byte, den, fwdUp, fwdDown map[uint16]bool) {
	c := run.c
	e := d.Ecs
	wit := func(extra map[string]any) map[string]any {
		w := map[string]any{"conf": d, "case": c, "client_query": hex.EncodeToString(c.queryBytes()), "reply_to_client": hex.EncodeToString(reply),
			"upstream_reply": hex.EncodeToString(run.upReply), "codes_the_text_denotes": sortedCodes(den),
			"how_to_rerun": "-replay re-loads exactly this configuration text through the recorded route and re-sends its cases"}
		var qs []string
		for _, q := range run.upQuery {
			qs = append(qs, hex.EncodeToString(q))
		}
		w["upstream_queries"] = qs
		for k, v := range extra {
			w[k] = v
		}
		return w
	}
	where := fmt.Sprintf("rules %q loaded through %s", d.Rules, d.Route)
	if d.Route == "yaml-file" {
		where += " (exec written as a " + d.ExecStyle + " YAML scalar)"
	}
	fwdMay := e != nil && e.Forward.may(true)
	upDenoted := func(code uint16) bool { return den[code] && d.Fwd != nil && !d.Fwd.Post }
	clientHasECS := false
	for _, o := range c.ClientOpts {
		if o.Code == 8 {
			clientHasECS = true
		}
	}
	var ecsCfg string
	if e != nil {
		ecsCfg = fmt.Sprintf(" [%s forward=%q send=%q", e.Kind, e.Forward.Text, e.Send.Text)
		if e.Preset != nil {
			ecsCfg += fmt.Sprintf(" preset=%q", e.Preset.Text)
		}
		if e.Mask4 != nil {
			ecsCfg += fmt.Sprintf(" mask4=%q", e.Mask4.Text)
		}
		if e.Mask6 != nil {
			ecsCfg += fmt.Sprintf(" mask6=%q", e.Mask6.Text)
		}
		ecsCfg += "]"
	}

	// upstream side
	for _, qb := range run.upQuery {
		m, err := wire.Parse(qb)
		if err != nil {
			rep.Violation("upstream-query-unparseable", "the query mosdns sent upstream does not parse: "+err.Error(), wit(nil))
			continue
		}
		opts := m.OPTs()
		if len(opts) != 1 {
			rep.Violation("opt-count-up", fmt.Sprintf("query sent upstream carries %d OPT records; want exactly one (%s)", len(opts), where), wit(nil))
			continue
		}
		rep.Count("conf_up_queries_observed", 1)
		gen := d.denotedECS(c.ClientAddr)
		seen := map[uint16]bool{}
		for _, uo := range opts[0].Options {
			seen[uo.Code] = true
			fromClient := c.HasOpt && sameOpt(uo, uo.Code, confData(uo.Code, 'c', c.Idx))
			if uo.Code == 8 && !fromClient {
				n, ok := normECS(uo.Data)
				isGen := false
				for _, g := range gen {
					if ok && g == n {
						isGen = true
					}
				}
				if isGen {
					rep.Count("conf_ecs_generated_as_denoted", 1)
					continue
				}
				rep.Violation("config-text-misread:ecs-generated", fmt.Sprintf("%s%s: the ECS option %x sent upstream (client address %q, qclass %d) is neither the client's nor one the written preset / send / masks denote (%+v)", where, ecsCfg, uo.Data, c.ClientAddr, c.Qclass, gen), wit(nil))
				continue
			}
			switch {
			case !fromClient:
				rep.Violation("upstream-option-unexplained", fmt.Sprintf("%s: option code %d (%x) sent upstream was not in the client's OPT and no plugin generates it", where, uo.Code, uo.Data), wit(nil))
			case upDenoted(uo.Code):
				fwdUp[uo.Code] = true
				rep.Count("conf_up_options_forwarded_as_denoted", 1)
			case uo.Code == 8 && fwdMay:
				fwdUp[8] = true
				rep.Count("conf_up_ecs_forwarded_as_denoted", 1)
			default:
				class, note := d.blame(uo.Code)
				if (class == "unattributed" || class == "plain") && uo.Code == 8 && e != nil {
					rep.Violation("config-text-misread:ecs-forward", fmt.Sprintf("%s%s: the client's ECS option reached the upstream although forward is written as %q (denotes false) and the forward_edns0opt text denotes codes %v", where, ecsCfg, e.Forward.Text, sortedCodes(den)), wit(nil))
					continue
				}
				rep.Violation("config-text-misread:"+class, fmt.Sprintf("%s: the client's option code %d reached the upstream, but the forward_edns0opt text denotes codes %v%s", where, uo.Code, sortedCodes(den), note), wit(map[string]any{"direction": "client->upstream", "leaked_code": uo.Code}))
			}
		}
		for _, co := range c.ClientOpts {
			switch {
			case !c.HasOpt:
			case seen[co.Code]:
			case upDenoted(co.Code):
				rep.Count("conf_denoted_code_not_forwarded_up", 1)
			default:
				rep.Count("conf_client_probe_options_terminated", 1)
			}
		}
	}
	if len(run.upQuery) == 0 {
		rep.Count("conf_cases_without_upstream_query", 1)
	}

	// client side
	if reply == nil {
		rep.Count("conf_cases_without_reply", 1)
		return
	}
	m, err := wire.Parse(reply)
	if err != nil {
		rep.Violation("reply-unparseable", "reply bytes from EntryHandler.Handle do not parse: "+err.Error(), wit(nil))
		return
	}
	opts := m.OPTs()
	want := 0
	if c.HasOpt {
		want = 1
	}
	if len(opts) != want {
		rep.Violation("opt-count-down", fmt.Sprintf("reply carries %d OPT records but the client query had %d (%s)", len(opts), want, where), wit(nil))
		return
	}
	seen := map[uint16]bool{}
	for _, o := range opts {
		for _, x := range o.Options {
			seen[x.Code] = true
			fromUp := c.UpHasOpt && len(run.upQuery) > 0 && sameOpt(x, x.Code, confData(x.Code, 'u', c.Idx))
			switch {
			case !fromUp:
				rep.Violation("reply-option-unexplained", fmt.Sprintf("%s: reply carries option code %d (%x) that the upstream did not send", where, x.Code, x.Data), wit(nil))
			case den[x.Code]:
				fwdDown[x.Code] = true
				rep.Count("conf_down_options_forwarded_as_denoted", 1)
			case x.Code == 8 && fwdMay && clientHasECS:
				fwdDown[8] = true
				rep.Count("conf_down_ecs_forwarded_as_denoted", 1)
			default:
				class, note := d.blame(x.Code)
				if (class == "unattributed" || class == "plain") && x.Code == 8 && e != nil {
					rep.Violation("config-text-misread:ecs-forward", fmt.Sprintf("%s%s: the upstream's ECS option was handed to the client (client sent an ECS: %v) although forward is written as %q and the forward_edns0opt text denotes codes %v", where, ecsCfg, clientHasECS, e.Forward.Text, sortedCodes(den)), wit(nil))
					continue
				}
				rep.Violation("config-text-misread:"+class, fmt.Sprintf("%s: the upstream's option code %d was handed to the client, but the forward_edns0opt text denotes codes %v%s", where, x.Code, sortedCodes(den), note), wit(map[string]any{"direction": "upstream->client", "leaked_code": x.Code}))
			}
		}
	}
	if c.HasOpt && c.UpHasOpt && len(run.upQuery) > 0 {
		for _, uo := range c.UpOpts {
			switch {
			case seen[uo.Code]:
			case den[uo.Code]:
				rep.Count("conf_denoted_code_not_forwarded_down", 1)
			default:
				rep.Count("conf_upstream_probe_options_terminated", 1)
			}
		}
	}
}

// runConfFamily runs the configuration-text family on its own workers.
func runConfFamily() {
	all := len(codeValsIn) + len(codeValsOut) + len(codeValsNeg)
	nGrid := all * len(numStyles) * 3 // every number x every spelling x every route
	nRandom := rep.Pick(700, 12000)
	dir, err := os.MkdirTemp("", "c15conf-")
	if err != nil {
		rep.Inconclusive("cannot create a directory for configuration documents: %v", err)
		return
	}
	defer os.RemoveAll(dir)
	jobs := make(chan *confDesc)
	var wg sync.WaitGroup
	for w := 0; w < 16; w++ {
		wg.Add(1)
		go func() {
			defer wg.Done()
			for d := range jobs {
				runConf(d, dir)
			}
		}()
	}
	for i := 0; i < nGrid+nRandom; i++ {
		jobs <- genConf(rep.Seed, confIdxBase+i, nGrid)
	}
	close(jobs)
	wg.Wait()
}

// confGridN is what genConf needs to regenerate a configuration by index.
func confGridN() int {
	return (len(codeValsIn) + len(codeValsOut) + len(codeValsNeg)) * len(numStyles) * 3
}
