package main

// Timed cells: the one part of C20 that is a statement about time with an upper
// bound. always_standby, threshold T = 400 ms, the secondary finishes with an
// answer at s = 340 ms (< T) while the primary is held: the standby answer has to
// be released when T has passed since the call began — not T after the secondary
// finished.
//
//   deadline   the call must return the secondary's answer no later than
//              T + slack after the secondary goroutine started its work;
//   p-release  if the call has not returned by p, a point in
//              (T + slack, s + T - slack), the primary is released with an
//              answer; the result must still be the secondary's (it was due first).
//
// A late verdict is only taken when the machine was demonstrably on time: a
// reference chain (timer armed for the same instant + two channel hops) and the
// scheduling-lag monitor must both show less than slack/4 of lag during the case,
// and the lateness must reproduce in an immediate second execution. Cases that
// fail the guard are discarded (counted), never reported.

import (
	"fmt"
	"sync/atomic"
	"time"
)

const (
	timedThresholdMs = 400
	timedSAtMs       = 340
	timedSlack       = 120 * time.Millisecond
	timedGuard       = timedSlack / 4
)

// ---------------------------------------------------------------- lag ring

const (
	lagBucket = 10 * time.Millisecond
	lagRingN  = 8192
)

var (
	lagRing  [lagRingN]atomic.Uint64 // epoch<<32 | lag in microseconds
	maxLagNs atomic.Int64
)

func lagPut(bucket int64, lag time.Duration) {
	us := uint64(lag / time.Microsecond)
	if us > 0xffffffff {
		us = 0xffffffff
	}
	slot := &lagRing[bucket%lagRingN]
	for {
		old := slot.Load()
		if int64(old>>32) == bucket && old&0xffffffff >= us {
			return
		}
		if slot.CompareAndSwap(old, uint64(bucket)<<32|us) {
			return
		}
	}
}

// lagMonitor measures how late 1 ms sleeps wake up and files the lag under every
// 10 ms bucket the sleep spanned.
func lagMonitor() {
	for {
		t0 := now()
		time.Sleep(time.Millisecond)
		t1 := now()
		lag := t1 - t0 - time.Millisecond
		if lag < 0 {
			lag = 0
		}
		if int64(lag) > maxLagNs.Load() {
			maxLagNs.Store(int64(lag))
		}
		for b := int64(t0 / lagBucket); b <= int64(t1/lagBucket); b++ {
			lagPut(b, lag)
		}
	}
}

// maxLagBetween returns the largest lag filed for [a, b]; a bucket the monitor
// never reported on (other than the two most recent ones) counts as unbounded lag.
func maxLagBetween(a, b time.Duration) time.Duration {
	var max time.Duration
	last := int64(b / lagBucket)
	for k := int64(a / lagBucket); k <= last; k++ {
		v := lagRing[k%lagRingN].Load()
		if int64(v>>32) != k {
			if k >= last-1 {
				continue
			}
			return time.Hour
		}
		if d := time.Duration(v&0xffffffff) * time.Microsecond; d > max {
			max = d
		}
	}
	return max
}

// ---------------------------------------------------------------- flow

type timedInfo struct {
	ran       bool
	discard   string        // non-empty: case not judged (reason)
	late      bool          // the late/wrong verdict candidate
	lateWhat  string        // key suffix
	lateText  string        // description
	dueAt     time.Duration // S.start + T: when the standby answer is due
	retAt     time.Duration
	refLate   time.Duration
	refKnown  bool
	lagWindow time.Duration
}

func (r *run) evTime(kind string) (time.Duration, bool) {
	r.mu.Lock()
	defer r.mu.Unlock()
	if i, ok := r.first[kind]; ok {
		return r.evs[i].t, true
	}
	return 0, false
}

func sleepUntil(t time.Duration) {
	if d := t - now(); d > 0 {
		time.Sleep(d)
	}
}

// awaitUntil waits for an event until an instant of the monotonic clock.
func (r *run) awaitUntil(t time.Duration, kind string) bool {
	d := t - now()
	if d <= 0 {
		return r.has(kind)
	}
	return r.await(d, kind) != ""
}

func (r *run) executeTimed() {
	ti := &r.timed
	ti.ran = true
	T := r.thr
	s := time.Duration(r.c.SAtMs) * time.Millisecond
	r.m = model{standby: true, long: false, p: "held", s: "held"}
	go r.call()
	if r.await(progressBound, "P.start") == "" || r.await(progressBound, "S.start") == "" {
		r.stall = "standby-secondary-not-started"
		return
	}
	t0 := r.callStart()
	tS, _ := r.evTime("S.start") // the secondary goroutine takes its threshold timer before it runs the secondary
	ti.dueAt = tS + T
	// reference chain: a timer for the same instant and two goroutine hops
	var refDone atomic.Int64
	go func() {
		a, b := make(chan struct{}), make(chan struct{})
		go func() { <-a; close(b) }()
		go func() { <-b; refDone.Store(int64(now())) }()
		tm := time.NewTimer(ti.dueAt - now())
		<-tm.C
		close(a)
	}()

	sleepUntil(t0 + s)
	r.release(roleS)
	r.actions++
	if r.await(progressBound, "S.end") == "" || r.await(progressBound, "hook.S.finished") == "" {
		r.harnessProblem = "released worker did not end"
		return
	}
	r.m = r.m.apply(roleS, r.out[roleS])
	fin, _ := r.evTime("hook.S.finished")
	if fin > ti.dueAt-20*time.Millisecond {
		ti.discard = "the secondary could not be finished well before the threshold"
		r.over = true
		return
	}
	deadline := ti.dueAt + timedSlack
	checkpoint := deadline
	if r.c.Timed == "p-release" {
		// strictly inside (T + slack, s + T - slack), measured from where each tree arms its timer
		checkpoint = (deadline + (fin + T - timedSlack)) / 2
	}
	onTime := r.awaitUntil(checkpoint, "return")
	if onTime {
		r.expectReturn("R4", []string{resS}, "standby answer due when the threshold has passed since the call began")
	} else if r.c.Timed == "p-release" {
		r.release(roleP)
		r.actions++
		r.expectReturn("R4", []string{resS}, fmt.Sprintf("the call had not returned %.0f ms after it began (threshold %v, secondary finished at %.0f ms); the primary was then released", float64(now()-t0)/1e6, T, float64(fin-t0)/1e6))
	} else {
		r.expectReturn("R4", []string{resS}, "")
	}
	ti.retAt, _ = r.evTime("return")
	if onTime {
		return
	}
	// late: is the machine to blame?
	time.Sleep(3 * time.Millisecond)
	if v := refDone.Load(); v != 0 {
		ti.refKnown, ti.refLate = true, time.Duration(v)-ti.dueAt
	}
	ti.lagWindow = maxLagBetween(t0, checkpoint)
	if !ti.refKnown || ti.refLate > timedGuard || ti.lagWindow > timedGuard {
		ti.discard = fmt.Sprintf("late, but so was the machine (reference chain late by %v known=%v, scheduling lag %v, guard %v)", ti.refLate, ti.refKnown, ti.lagWindow, timedGuard)
		r.mm = nil
		return
	}
	ti.late = true
	if r.mm != nil && r.mm.Got == resP {
		ti.lateWhat = "got-P"
		ti.lateText = fmt.Sprintf("always_standby, threshold %v, secondary finished with an answer %.0f ms after the call began, primary held: the call had still not returned at %.0f ms, the primary was then released and ITS answer was returned although the secondary's answer was due first (first answer after the threshold wins)", T, float64(fin-t0)/1e6, float64(checkpoint-t0)/1e6)
	} else {
		ti.lateWhat = "released-late"
		ti.lateText = fmt.Sprintf("always_standby, threshold %v, secondary finished with an answer %.0f ms after the call began, primary held: the call returned %s only %.0f ms after it began (due at %.0f ms, slack %v)", T, float64(fin-t0)/1e6, r.result, float64(ti.retAt-t0)/1e6, float64(ti.dueAt-t0)/1e6, timedSlack)
		if ti.retAt == 0 {
			ti.lateText = fmt.Sprintf("always_standby, threshold %v, secondary finished with an answer %.0f ms after the call began, primary held: the call did not return within %v", T, float64(fin-t0)/1e6, progressBound)
		}
	}
	ti.lateText += fmt.Sprintf("; machine on time: reference chain late by %v, max scheduling lag %v", ti.refLate, ti.lagWindow)
	r.mm = nil // reported through the timed verdict (after reproduction), not as a plain mismatch
}
