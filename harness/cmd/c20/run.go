package main

import (
	"context"
	"errors"
	"fmt"
	"runtime"
	"strings"
	"sync"
	"sync/atomic"
	"time"

	"github.com/IrineSistiana/mosdns/v5/pkg/query_context"
	"github.com/IrineSistiana/mosdns/v5/plugin/executable/sequence"
	"github.com/IrineSistiana/mosdns/v5/plugin/executable/sequence/fallback"
	"github.com/miekg/dns"
)

// One monotonic clock for every event of every case.
var base = time.Now()

func now() time.Duration { return time.Since(base) }

const (
	roleP = 0
	roleS = 1
)

var roleName = [2]string{"P", "S"}

// result classes of one call
const (
	resP       = "P"         // returned nil, caller's context holds the primary's answer
	resS       = "S"         // returned nil, caller's context holds the secondary's answer
	resFailed  = "errfailed" // returned fallback.ErrFailed
	resCtx     = "ctxerr"    // returned the caller context's error / cause
	resOther   = "othererr"  // returned some other error
	resForeign = "foreign"   // returned nil but the response is nil / garbled / of another call
	resNone    = "noreturn"  // did not return within the progress bound
)

// progressBound restates "the call returns" as bounded progress. Nominal latency
// of every awaited step is far below 1 ms (or the short threshold, <= 40 ms);
// the bound stays below the long threshold (5 s) so that the threshold timer can
// never rescue a stalled call in the long regime.
const progressBound = 4 * time.Second

type event struct {
	Seq  int     `json:"seq"`
	TUs  float64 `json:"t_us"`
	Kind string  `json:"ev"`
	Info string  `json:"info,omitempty"`
	t    time.Duration
}

type workerInfo struct {
	started  bool
	qc       *query_context.Context
	qmsg     *dns.Msg
	hasDdl   bool
	ddl      time.Time
	pristine bool
	sawOther bool
}

type mismatch struct {
	Rule    string   `json:"rule"`
	Allowed []string `json:"allowed"`
	Got     string   `json:"got"`
	Note    string   `json:"note,omitempty"`
}

type run struct {
	c    cell
	name string // question name = case identity
	thr  time.Duration
	fb   sequence.Executable

	ctx        context.Context
	cancelFn   func()
	cause      error
	ctxCreated time.Duration // lower bound of the instant the timeout context was created
	timeout    time.Duration
	callerDdl  time.Time
	hasDdl     bool

	qctx   *query_context.Context
	origID uint16

	mu       sync.Mutex
	evs      []event
	first    map[string]int // kind -> index of first occurrence
	wake     chan struct{}
	out      [2]string // scripted outcome per role: answer | none | error
	errAns   [2]bool   // "error" outcome also leaves a response behind
	relCh    [2]chan struct{}
	released [2]bool
	resumeCh chan struct{}
	resumed  bool
	w        [2]workerInfo
	result   string
	resInfo  string

	// controller state (controller goroutine only)
	m              model
	points         int // pending points passed
	actions        int // release actions done
	over           bool
	mm             *mismatch
	stall          string
	window         bool // pause window realised
	relInWin       bool // the secondary reached its release point while the primary was paused
	cancelled      bool
	heldAtReturn   int
	harnessProblem string
	timed          timedInfo
	cfg            cfgInfo
}

var (
	runs      sync.Map // question name -> *run
	byQctx    sync.Map // *query_context.Context -> *run
	caseSeq   atomic.Int64
	lateWork  atomic.Int64
	hookNoRun atomic.Int64
)

func (r *run) log(kind, info string) int {
	r.mu.Lock()
	t := now()
	e := event{Seq: len(r.evs), t: t, TUs: float64(t) / 1e3, Kind: kind, Info: info}
	r.evs = append(r.evs, e)
	if _, ok := r.first[kind]; !ok {
		r.first[kind] = e.Seq
	}
	close(r.wake)
	r.wake = make(chan struct{})
	r.mu.Unlock()
	return e.Seq
}

func (r *run) has(kind string) bool {
	r.mu.Lock()
	_, ok := r.first[kind]
	r.mu.Unlock()
	return ok
}

func (r *run) nEvents() int {
	r.mu.Lock()
	defer r.mu.Unlock()
	return len(r.evs)
}

// await waits until an event of one of the kinds exists (returns it) or the
// bound expires (returns "").
func (r *run) await(bound time.Duration, kinds ...string) string {
	var timer *time.Timer
	for {
		r.mu.Lock()
		for _, k := range kinds {
			if _, ok := r.first[k]; ok {
				r.mu.Unlock()
				if timer != nil {
					timer.Stop()
				}
				return k
			}
		}
		w := r.wake
		r.mu.Unlock()
		if timer == nil {
			timer = time.NewTimer(bound)
		}
		select {
		case <-w:
		case <-timer.C:
			return ""
		}
	}
}

func (r *run) snapshot() []event {
	r.mu.Lock()
	defer r.mu.Unlock()
	return append([]event(nil), r.evs...)
}

// ---------------------------------------------------------------- workers

var errScripted = errors.New("c20: scripted worker failure")

type worker struct{ role int }

// Exec is what the fallback plugin runs as its primary / secondary. It finishes
// only when the harness releases it.
func (w *worker) Exec(ctx context.Context, qc *query_context.Context) error {
	name := qc.QQuestion().Name
	v, ok := runs.Load(name)
	if !ok {
		lateWork.Add(1)
		return errScripted
	}
	r := v.(*run)
	role := w.role
	startT := now()
	ddl, hasDdl := ctx.Deadline()
	other := 1 - role
	r.mu.Lock()
	r.w[role] = workerInfo{started: true, qc: qc, qmsg: qc.Q(), hasDdl: hasDdl, ddl: ddl,
		pristine: qc.Q().Id == r.origID && qc.R() == nil,
		sawOther: qc.HasMark(uint32(100 + other))}
	r.mu.Unlock()
	byQctx.Store(qc, r)
	r.log(roleName[role]+".start", "")
	<-r.relCh[role] // the harness always releases (at the latest in cleanup)
	if (r.c.Edge == "S-at-edge" && role == roleS) || (r.c.Edge == "P-at-edge" && role == roleP) {
		// end right when the threshold timer of this call fires
		target := startT + r.thr - time.Duration(r.c.EdgeDeltaUs)*time.Microsecond
		if d := target - now() - 60*time.Microsecond; d > 0 {
			time.Sleep(d)
		}
		for now() < target {
		}
	}
	r.mu.Lock()
	out, errAns := r.out[role], r.errAns[role]
	r.mu.Unlock()
	// scribble on the private copy: must stay invisible to the caller and the other worker
	qc.SetMark(uint32(100 + role))
	qc.Q().Id ^= 0x5a5a
	switch out {
	case "answer":
		qc.SetResponse(makeAnswer(qc.Q(), roleName[role], name))
		r.log(roleName[role]+".end", "answer")
		return nil
	case "none":
		r.log(roleName[role]+".end", "none")
		return nil
	default:
		if errAns {
			qc.SetResponse(makeAnswer(qc.Q(), roleName[role]+"-with-error", name))
		}
		kind := r.c.PErrKind
		if role == roleS {
			kind = r.c.SErrKind
		}
		err := makeErr(kind, ctx) // before the end is logged: a kind may need the worker's context
		r.log(roleName[role]+".end", strings.TrimSpace("error "+kind))
		return err
	}
}

func makeAnswer(q *dns.Msg, who, name string) *dns.Msg {
	m := new(dns.Msg)
	m.SetReply(q)
	m.Id = q.Id
	m.Answer = append(m.Answer, &dns.TXT{
		Hdr: dns.RR_Header{Name: q.Question[0].Name, Rrtype: dns.TypeTXT, Class: dns.ClassINET, Ttl: 60},
		Txt: []string{who + "|" + name},
	})
	return m
}

// ---------------------------------------------------------------- hooks

func hookPrimarySignalled(_ string, arg any) {
	qc, _ := arg.(*query_context.Context)
	v, ok := byQctx.Load(qc)
	if !ok {
		hookNoRun.Add(1)
		return
	}
	r := v.(*run)
	r.mu.Lock()
	isP := r.w[roleP].qc == qc
	r.mu.Unlock()
	if !isP {
		r.log("hook.P.signalled", "ARG-IS-NOT-THE-PRIMARY-COPY")
		return
	}
	r.log("hook.P.signalled", "")
	if r.c.Pause == "none" {
		return
	}
	r.log("hook.P.paused", "")
	select {
	case <-r.resumeCh:
	case <-time.After(30 * time.Second):
		r.log("hook.P.pause-watchdog", "")
	}
	r.log("hook.P.resumed", "")
}

func hookSecondary(kind string) func(string, any) {
	return func(_ string, arg any) {
		qc, _ := arg.(*query_context.Context)
		v, ok := byQctx.Load(qc)
		if !ok {
			hookNoRun.Add(1)
			return
		}
		v.(*run).log(kind, "")
	}
}

// ---------------------------------------------------------------- controller primitives

func (r *run) release(role int) {
	r.mu.Lock()
	if r.released[role] {
		r.mu.Unlock()
		return
	}
	r.released[role] = true
	out := r.out[role]
	r.mu.Unlock()
	r.log(roleName[role]+".release", out)
	close(r.relCh[role])
}

func (r *run) resume() {
	r.mu.Lock()
	if !r.resumed {
		r.resumed = true
		close(r.resumeCh)
	}
	r.mu.Unlock()
}

func (r *run) doCancel(how string) {
	if r.cancelled {
		return
	}
	r.cancelled = true
	if r.c.CtxKind == "timeout" {
		return // the deadline does the work
	}
	r.log("ctx.cancel", how)
	r.cancelFn()
}

func (r *run) settle(long bool) {
	for i := 0; i < 3; i++ {
		runtime.Gosched()
	}
	if long {
		time.Sleep(200 * time.Microsecond)
		runtime.Gosched()
	}
}

// call runs the real plugin once.
func (r *run) call() {
	r.log("call.start", "")
	err := r.fb.Exec(r.ctx, r.qctx)
	res, info := resOther, ""
	switch {
	case err == nil:
		res, info = r.classifyAnswer()
	case errors.Is(err, fallback.ErrFailed):
		res = resFailed
	default:
		info = err.Error()
		if ce := r.ctx.Err(); ce != nil && (err == context.Cause(r.ctx) || errors.Is(err, ce)) {
			res = resCtx
		}
	}
	r.mu.Lock()
	r.result, r.resInfo = res, info
	r.mu.Unlock()
	r.log("return", strings.TrimSpace(res+" "+info))
}

func (r *run) classifyAnswer() (string, string) {
	m := r.qctx.R()
	if m == nil {
		return resForeign, "nil response after a nil error"
	}
	if len(m.Question) != 1 || m.Question[0].Name != r.name || !m.Response {
		return resForeign, "response does not echo the question"
	}
	if len(m.Answer) != 1 {
		return resForeign, fmt.Sprintf("%d answer records", len(m.Answer))
	}
	txt, ok := m.Answer[0].(*dns.TXT)
	if !ok || len(txt.Txt) != 1 {
		return resForeign, "answer is not the scripted TXT"
	}
	who, name, _ := strings.Cut(txt.Txt[0], "|")
	if name != r.name {
		return resForeign, "answer of another call: " + txt.Txt[0]
	}
	switch who {
	case "P":
		return resP, ""
	case "S":
		return resS, ""
	}
	return resForeign, "response left behind by a failed worker: " + txt.Txt[0]
}

// expectReturn waits for the call to return and compares with the allowed set.
func (r *run) expectReturn(rule string, allowed []string, note string) {
	r.expectReturnIn(progressBound, rule, allowed, note)
}

// expectReturnIn: expectReturn with an explicit progress bound (the configured-
// threshold cells wait for a threshold that is seconds away, plus the bound).
func (r *run) expectReturnIn(bound time.Duration, rule string, allowed []string, note string) {
	r.over = true
	got := resNone
	if r.await(bound, "return") != "" {
		r.mu.Lock()
		got = r.result
		held := 0
		for i := 0; i < 2; i++ {
			if r.w[i].started && !r.released[i] {
				held++
			}
		}
		r.heldAtReturn = held
		r.mu.Unlock()
	}
	for _, a := range allowed {
		if a == got {
			return
		}
	}
	r.mm = &mismatch{Rule: rule, Allowed: allowed, Got: got, Note: note}
}

// cleanup releases everything, ends the call and waits for the workers.
func (r *run) cleanup() {
	// an unreleased primary is released with an answer: then a not yet started
	// secondary (no standby) must never start; an unreleased secondary fails.
	r.mu.Lock()
	if !r.released[roleP] {
		r.out[roleP] = "answer"
	}
	r.mu.Unlock()
	r.release(roleP)
	r.release(roleS)
	r.resume()
	if r.await(50*time.Millisecond, "return") == "" {
		r.log("cleanup.cancel", "")
		r.cancelFn()
		if r.await(10*time.Second, "return") == "" {
			r.harnessProblem = "call did not return even after its context was cancelled"
		}
	} else {
		r.cancelFn()
	}
	for role := 0; role < 2; role++ {
		r.mu.Lock()
		st := r.w[role].started
		r.mu.Unlock()
		if st {
			if r.await(10*time.Second, roleName[role]+".end") == "" {
				r.harnessProblem = "worker did not end after release"
			}
		}
	}
	r.settle(false)
	runs.Delete(r.name)
	r.mu.Lock()
	for i := 0; i < 2; i++ {
		if r.w[i].qc != nil {
			byQctx.Delete(r.w[i].qc)
		}
	}
	r.mu.Unlock()
}
