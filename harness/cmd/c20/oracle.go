package main

import (
	"fmt"
	"strings"
	"time"
)

// model is the reference state machine of the property statement. The controller
// advances it with every release it performs; due() says whether the call must
// return now and with what.
type model struct {
	standby bool
	long    bool   // threshold 5 s: the primary is certainly "within the threshold"
	p       string // held | ans | fail
	s       string // idle (not started) | held | ans | fail
}

func outClass(out string) string {
	if out == "answer" {
		return "ans"
	}
	return "fail"
}

// due returns the rule that decides the result and the allowed results, or ""
// while the call must still be pending.
func (m model) due() (rule string, allowed []string) {
	switch m.p {
	case "ans":
		if m.long {
			return "R2", []string{resP} // primary answered in time
		}
		return "R4", []string{resP} // after the threshold: it is the first answer to arrive
	case "fail":
		switch m.s {
		case "ans":
			return "R3", []string{resS}
		case "fail":
			return "R5", []string{resFailed}
		}
		return "", nil
	}
	// primary still running
	if m.s == "ans" {
		if m.standby && m.long {
			return "", nil // finished secondary stands by
		}
		// no standby: the secondary only runs after the threshold; standby+short:
		// its answer is released when the threshold passes
		return "R4", []string{resS}
	}
	return "", nil
}

func (m model) apply(role int, out string) model {
	if role == roleP {
		m.p = outClass(out)
	} else {
		m.s = outClass(out)
	}
	return m
}

// togetherAllowed: both workers are released at once; every serialisation is a
// legal history, so the allowed set is the union over both orders.
func (m model) togetherAllowed(roles []int, outs [2]string) (string, []string) {
	set := map[string]bool{}
	rule := ""
	perms := [][]int{roles}
	if len(roles) == 2 {
		perms = append(perms, []int{roles[1], roles[0]})
	}
	for _, perm := range perms {
		mm := m
		for _, role := range perm {
			mm = mm.apply(role, outs[role])
			if ru, al := mm.due(); ru != "" {
				for _, a := range al {
					set[a] = true
				}
				if rule == "" || ru < rule {
					rule = ru
				}
				break
			}
		}
	}
	var out []string
	for _, k := range []string{resP, resS, resFailed} {
		if set[k] {
			out = append(out, k)
		}
	}
	return rule, out
}

// ---------------------------------------------------------------- flows

// execute drives one case. It never blocks without a bound.
func (r *run) execute(sleepSettle bool) {
	c := r.c
	r.m = model{standby: c.Standby, long: c.Regime == "long", p: "held", s: "idle"}
	go r.call()
	if r.await(progressBound, "P.start") == "" {
		r.stall = "primary-not-started"
		return
	}
	if c.Standby {
		if r.await(progressBound, "S.start") == "" {
			r.stall = "standby-secondary-not-started"
			return
		}
		r.m.s = "held"
	} else if c.Regime == "short" {
		// primary slow: the secondary has to be started once the threshold passed
		if r.await(progressBound, "S.start") == "" {
			r.stall = "secondary-not-started-after-threshold"
			return
		}
		r.m.s = "held"
	}
	if c.Regime == "short" && c.Standby && c.Late {
		// let the threshold pass before anything is released (no verdict depends on it)
		if d := r.thr + 2*time.Millisecond - (now() - r.callStart()); d > 0 {
			time.Sleep(d)
		}
	}
	for !r.over {
		if rule, allowed := r.m.due(); rule != "" {
			r.expectReturn(rule, allowed, "")
			return
		}
		if r.pendingPoint(sleepSettle) {
			return
		}
		var feasible []int
		prio := []int{roleP, roleS}
		if c.Order == "Sfirst" || c.Order == "Pslow" {
			prio = []int{roleS, roleP}
		}
		for _, role := range prio {
			if (role == roleP && r.m.p == "held") || (role == roleS && r.m.s == "held") {
				feasible = append(feasible, role)
			}
		}
		if len(feasible) == 0 {
			if r.m.s == "idle" && r.m.p == "fail" {
				if r.await(progressBound, "S.start") == "" {
					r.stall = "secondary-not-started-after-primary-failure"
					return
				}
				r.m.s = "held"
				continue
			}
			r.harnessProblem = "controller has nothing to do but the model says pending"
			return
		}
		if c.Order == "together" {
			r.actTogether(feasible)
		} else {
			r.act(feasible[0])
		}
	}
}

// executeEdge: both workers are released before the call starts; one of them
// ends right at the threshold edge so that the secondary goroutine lets go of
// its threshold timer at the instant the timer fires. The secondary fails and
// the primary answers, so the result is the primary's answer in every
// serialisation; R1 keeps watching every secondary start.
func (r *run) executeEdge() {
	r.m = model{standby: r.c.Standby, long: false, p: "ans", s: "fail"}
	r.release(roleP)
	r.release(roleS)
	r.actions = 1
	go r.call()
	r.expectReturn("R4", []string{resP}, "secondary fails, primary answers around the threshold edge")
}

func (r *run) elapsedAtReturn() time.Duration {
	r.mu.Lock()
	defer r.mu.Unlock()
	i, ok := r.first["return"]
	j, ok2 := r.first["call.start"]
	if !ok || !ok2 {
		return 0
	}
	return r.evs[i].t - r.evs[j].t
}

func (r *run) callStart() time.Duration {
	r.mu.Lock()
	defer r.mu.Unlock()
	if i, ok := r.first["call.start"]; ok {
		return r.evs[i].t
	}
	return 0
}

// pendingPoint: the model says the call must still be pending.
func (r *run) pendingPoint(sleepSettle bool) (over bool) {
	r.settle(sleepSettle)
	if r.has("return") {
		r.over = true // premature (or ctx-timeout) return: judged by the trace rules
		if r.c.CtxKind == "timeout" && r.c.Cancel == r.points {
			r.cancelled = true
			r.expectReturn("R6", []string{resCtx}, "deadline of the caller's context passed")
		}
		return true
	}
	if r.c.Cancel == r.points {
		r.doCancel(fmt.Sprintf("pending-point-%d", r.points))
		r.expectReturn("R6", []string{resCtx}, "context ended while the call was pending and no further worker was released")
		return true
	}
	r.points++
	return false
}

// afterRelease handles the "cancel racing with this release" variant.
func (r *run) afterRelease() {
	if r.c.CancelRace == r.actions {
		r.doCancel(fmt.Sprintf("race-with-release-%d", r.actions))
	}
	r.actions++
}

func (r *run) act(role int) {
	r.release(role)
	r.afterRelease()
	if r.await(progressBound, roleName[role]+".end") == "" {
		r.harnessProblem = "released worker did not end"
		r.over = true
		return
	}
	r.m = r.m.apply(role, r.out[role])
	if role == roleP && r.c.Pause != "none" {
		r.pauseWindow()
	}
	r.raceVerdict()
}

// raceVerdict: if the context was cancelled together with a release, the call
// ends now; it may return what became due or the context error.
func (r *run) raceVerdict() {
	if r.over || !r.cancelled {
		return
	}
	allowed := []string{resCtx}
	if _, al := r.m.due(); al != nil {
		allowed = append(allowed, al...)
	}
	r.resume()
	r.expectReturn("R6", allowed, "context cancelled concurrently with a release")
}

func (r *run) actTogether(roles []int) {
	before := r.m
	order := roles
	if len(roles) == 2 && r.c.Seed&1 == 1 {
		order = []int{roles[1], roles[0]}
	}
	for _, role := range order {
		r.release(role)
	}
	r.afterRelease()
	for _, role := range order {
		if r.await(progressBound, roleName[role]+".end") == "" {
			r.harnessProblem = "released worker did not end"
			r.over = true
			return
		}
		r.m = r.m.apply(role, r.out[role])
	}
	if r.c.Pause != "none" {
		for _, role := range order {
			if role == roleP {
				r.pauseWindow()
			}
		}
	}
	if r.over {
		return
	}
	rule, allowed := before.togetherAllowed(roles, r.out)
	if r.cancelled {
		r.resume()
		r.expectReturn("R6", append([]string{resCtx}, allowed...), "context cancelled concurrently with both releases")
		return
	}
	if rule != "" {
		r.expectReturn(rule, allowed, "both workers released at once: union over both serialisations")
	}
}

// pauseWindow: the primary goroutine is parked at fallback.primary.signalled,
// i.e. after close(primDone)/close(primFailed) and before it queues its result.
func (r *run) pauseWindow() {
	if r.await(progressBound, "hook.P.paused") == "" {
		return // schedule point not reached: counted, the case is then an unpaused one
	}
	r.window = true
	// the window is a place where the caller's context may end, too
	if !r.cancelled && r.c.Cancel == r.points {
		r.doCancel("in-pause-window")
		allowed := []string{resCtx}
		if _, al := r.m.due(); len(al) == 1 && al[0] == resS {
			allowed = append(allowed, resS) // primary failed, a finished secondary may deliver
		}
		r.expectReturn("R6", allowed, "context ended while the primary was between signalling and queueing")
		r.resume()
		return
	}
	r.points++
	if r.c.Pause == "hold+other" && r.c.Order != "together" && !r.cancelled {
		if r.m.s == "idle" && !r.m.standby && r.m.p == "fail" {
			if r.await(progressBound, "S.start") == "" {
				r.stall = "secondary-not-started-after-primary-failure"
				r.over = true
				r.resume()
				return
			}
			r.m.s = "held"
		}
		if r.m.s == "held" {
			// the secondary finishes inside the window
			r.release(roleS)
			r.afterRelease()
			if r.await(progressBound, "S.end") == "" {
				r.harnessProblem = "released worker did not end"
				r.over = true
				r.resume()
				return
			}
			r.m = r.m.apply(roleS, r.out[roleS])
		}
	}
	// give a finished secondary every chance to act on the signal before the
	// primary's result is queued
	if r.m.s == "ans" {
		if r.await(r.c.settleDur(), "hook.S.releasing") != "" {
			r.relInWin = true
			r.settle(true)
		}
	} else {
		time.Sleep(r.c.settleDur() / 4)
	}
	r.resume()
}

// ---------------------------------------------------------------- judging

type finding struct {
	Key  string
	What string
}

// judge applies the trace rules to the finished case.
func (r *run) judge() []finding {
	evs := r.snapshot()
	var out []finding
	add := func(key, what string) { out = append(out, finding{key, what}) }
	sb := "nostandby"
	if r.c.Standby {
		sb = "standby"
	}
	idx := func(kind, info string) int {
		for _, e := range evs {
			if e.Kind == kind && (info == "" || e.Info == info || strings.HasPrefix(e.Info, info)) {
				return e.Seq
			}
		}
		return -1
	}
	t0 := time.Duration(0)
	if i := idx("call.start", ""); i >= 0 {
		t0 = evs[i].t
	}
	pEnd := idx("P.end", "")
	pFail := -1
	if pEnd >= 0 && evs[pEnd].Info != "answer" {
		pFail = pEnd
	}
	sEnd := idx("S.end", "")
	sFail := -1
	if sEnd >= 0 && evs[sEnd].Info != "answer" {
		sFail = sEnd
	}
	cleanupSeq := len(evs)
	if i := idx("cleanup", ""); i >= 0 {
		cleanupSeq = i
	}

	// R1: without standby the secondary starts only after a primary failure or the threshold
	if !r.c.Standby {
		for _, e := range evs {
			if e.Kind != "S.start" {
				continue
			}
			el := e.t - t0
			if (pFail >= 0 && pFail < e.Seq) || el >= r.thr {
				stats.r1Checks.Add(1)
				if !(pFail >= 0 && pFail < e.Seq) {
					stats.minSlack(el - r.thr)
				}
				continue
			}
			pstate := "pending"
			if pEnd >= 0 && pEnd < e.Seq {
				pstate = "answered"
			}
			add("R1-secondary-started-early-primary-"+pstate,
				fmt.Sprintf("always_standby off, threshold %v: secondary started %.3f ms after the call began although the primary had not failed (primary %s)", r.thr, float64(el)/1e6, pstate))
		}
	}

	// the model expectation (R2..R6) found by the controller
	reportMM := func() {
		if lag := time.Duration(maxLagNs.Load()); (r.mm.Got == resNone && lag > time.Second) ||
			(r.mm.Rule == "R2" && r.m.long && time.Duration(0) < r.thr && r.elapsedAtReturn() > r.thr/2) {
			r.harnessProblem = fmt.Sprintf("machine too slow to judge (%s got %s, max scheduling lag %v)", r.mm.Rule, r.mm.Got, lag)
			return
		}
		key := fmt.Sprintf("%s-%s-got-%s", r.mm.Rule, sb, r.mm.Got)
		add(key, fmt.Sprintf("%s: expected %v, observed %s%s; case %s", ruleText[r.mm.Rule], r.mm.Allowed, r.mm.Got, noteText(r.mm.Note), r.c.class()))
	}
	deferred := false
	if r.mm != nil {
		if r.mm.Got == resS && r.m.long && r.m.p == "ans" {
			r.mm.Rule = "R2" // whatever else was going on: a timely primary answer was passed over
		}
		if r.mm.Rule == "R6" && (r.mm.Got == resP || r.mm.Got == resS || r.mm.Got == resFailed) {
			// the call did end; whether that result was legitimate is what the
			// generic rules on the return event decide
			deferred = true
		} else {
			reportMM()
		}
	}
	if r.stall != "" && time.Duration(maxLagNs.Load()) > time.Second {
		r.harnessProblem = "machine too slow to judge a bounded-progress expectation (" + r.stall + ")"
	} else if r.stall != "" {
		add("no-progress-"+r.stall, fmt.Sprintf("%s within %v (nominal < 1 ms resp. the %v threshold); case %s", r.stall, progressBound, r.thr, r.c.class()))
	}

	// generic rules on the return event (only a return the controller saw, i.e. before cleanup)
	nBefore := len(out)
	ret := idx("return", "")
	if ret >= 0 && ret < cleanupSeq && (r.mm == nil || deferred) {
		res := strings.Fields(evs[ret].Info)[0]
		el := evs[ret].t - t0
		switch res {
		case resS:
			if !(pFail >= 0 && pFail < ret) && el < r.thr {
				pstate := "pending"
				if pEnd >= 0 && pEnd < ret {
					pstate = "answered"
				}
				key := "secondary-answer-used-before-threshold-" + sb + "-primary-pending"
				if pstate == "answered" {
					key = "R2-" + sb + "-got-S" // the primary had answered, provably within the threshold
				}
				add(key, fmt.Sprintf("the call returned the secondary's answer %.3f ms after it began (threshold %v) although the primary had not failed (primary %s)", float64(el)/1e6, r.thr, pstate))
			} else if !(pFail >= 0 && pFail < ret) {
				stats.g2Checks.Add(1)
				stats.minSlack(el - r.thr)
			}
		case resFailed:
			if !(pFail >= 0 && pFail < ret && sFail >= 0 && sFail < ret) {
				add("R5-error-although-not-both-failed-"+sb, "the call returned ErrFailed before both workers had failed; case "+r.c.class())
			}
		case resCtx:
			ok := false
			if c := idx("ctx.cancel", ""); c >= 0 && c < ret {
				ok = true
			}
			if r.c.CtxKind == "timeout" && evs[ret].t >= r.ctxCreated+r.timeout {
				ok = true
			}
			if !ok {
				add("ctx-error-without-ctx-end", "the call returned a context error although the caller's context had not ended")
			}
		case resOther:
			add("unexpected-error", "the call returned an error that is neither ErrFailed nor the caller context's: "+evs[ret].Info)
		case resForeign:
			add("foreign-or-missing-answer", "the call returned nil but the response is not one of its workers' answers: "+evs[ret].Info)
		}
	}

	if deferred && len(out) == nBefore {
		reportMM()
	}

	// workers run on private copies carrying the caller's deadline
	r.mu.Lock()
	w := r.w
	r.mu.Unlock()
	for role := 0; role < 2; role++ {
		if !w[role].started {
			continue
		}
		stats.copyChecks.Add(1)
		if w[role].qc == r.qctx || w[role].qmsg == r.qctx.Q() || (w[1-role].started && (w[role].qc == w[1-role].qc || w[role].qmsg == w[1-role].qmsg)) {
			add("shared-query-context", roleName[role]+" worker was handed a query context (or query message) shared with the caller / the other worker")
		} else if !w[role].pristine || w[role].sawOther {
			add("shared-query-context", roleName[role]+" worker saw state written by the other worker")
		}
		if r.hasDdl {
			stats.ddlChecks.Add(1)
			if !w[role].hasDdl || !w[role].ddl.Equal(r.callerDdl) {
				add("deadline-not-propagated", fmt.Sprintf("caller deadline %v, %s worker deadline %v (set=%v)", r.callerDdl.Format(time.RFC3339Nano), roleName[role], w[role].ddl.Format(time.RFC3339Nano), w[role].hasDdl))
			}
		} else if w[role].hasDdl {
			stats.defaultDdl.Add(1)
		}
	}
	if ret >= 0 && ret < cleanupSeq {
		if r.qctx.Q().Id != r.origID || r.qctx.HasMark(100) || r.qctx.HasMark(101) {
			add("shared-query-context", "the caller's query context shows a worker's private modification")
		}
	}
	if idx("hook.P.signalled", "ARG") >= 0 {
		add("hook-arg-mismatch", "schedule point fallback.primary.signalled carried a context that is not the primary's copy")
	}
	return out
}

var ruleText = map[string]string{
	"R2": "R2 (primary answered within the threshold => the primary's answer is returned)",
	"R3": "R3 (primary failed => the secondary's answer is returned if it has one)",
	"R4": "R4 (primary slower than the threshold => the first answer to arrive wins)",
	"R5": "R5 (an error is returned iff both workers failed)",
	"R6": "R6 (the call ends with the context's error when the caller's context ends)",
}

func noteText(s string) string {
	if s == "" {
		return ""
	}
	return " (" + s + ")"
}
