// C20 — fallback prefers the primary and fails over only when it should.
//
// The real fallback plugin (plugin/executable/sequence/fallback, built through
// its Init with a coremain test instance) runs two scripted executables that
// finish only when the harness releases them. Every case logs P.start/P.end,
// S.start/S.end, the verif schedule points and the return on one monotonic
// clock; a reference model of the statement says after every release whether the
// call must return (and what) or must still be pending, and trace rules R1..R6
// judge the log. The window between "primary signalled done/failed" and "primary
// queued its result" is forced with the schedule point fallback.primary.signalled.
package main

import (
	"context"
	"errors"
	"fmt"
	"math/rand"
	"os"
	"runtime"
	"strings"
	"sync"
	"sync/atomic"
	"time"

	"github.com/IrineSistiana/mosdns/v5/coremain"
	"github.com/IrineSistiana/mosdns/v5/pkg/query_context"
	"github.com/IrineSistiana/mosdns/v5/plugin/executable/sequence"
	"github.com/IrineSistiana/mosdns/v5/plugin/executable/sequence/fallback"
	"github.com/miekg/dns"

	"verifharness/lib/evid"
	"verifharness/lib/leak"
	"verifharness/lib/sched"
)

var (
	rep     *evid.Reporter
	caselog *evid.CaseLog
)

type cell struct {
	Standby     bool   `json:"always_standby"`
	Regime      string `json:"regime"` // long: threshold 5000 ms (primary certainly in time) | short: primary held past the threshold
	ThresholdMs int    `json:"threshold_ms"`
	POut        string `json:"primary"`   // answer | none | error
	SOut        string `json:"secondary"` // answer | none | error
	PErrAns     bool   `json:"primary_error_leaves_response,omitempty"`
	SErrAns     bool   `json:"secondary_error_leaves_response,omitempty"`
	PErrKind    string `json:"primary_error_kind,omitempty"`   // errkind.go; "" = plain scripted error
	SErrKind    string `json:"secondary_error_kind,omitempty"` //
	Order       string `json:"order"`       // Pfirst | Sfirst | Pslow | Sslow | together
	Pause       string `json:"pause"`       // none | hold | hold+other (primary parked at fallback.primary.signalled; "+other": the secondary finishes inside the window)
	Cancel      int    `json:"cancel_at"`   // -1 | k: caller's context ends at the k-th pending point
	CancelRace  int    `json:"cancel_race"` // -1 | j: caller's context is cancelled together with the j-th release
	CtxKind     string `json:"ctx"`         // nodeadline | deadline | cause | timeout
	Late        bool   `json:"release_after_threshold,omitempty"`
	Edge        string `json:"edge,omitempty"` // S-at-edge | P-at-edge: that worker ends edge_delta_us before the threshold passes (its timer is released while it fires)
	EdgeDeltaUs int    `json:"edge_delta_us,omitempty"`
	Timed       string `json:"timed,omitempty"` // deadline | p-release (see timed.go)
	SAtMs       int    `json:"secondary_finishes_at_ms,omitempty"`
	SettleUs    int    `json:"settle_us"`
	// configured-threshold cells (cfg.go): the plugin is built from this YAML through the real decoder + Init
	Cfg          string `json:"plugin_config_yaml,omitempty"`
	CfgClass     string `json:"threshold_class,omitempty"`
	CfgSpell     string `json:"threshold_spelling,omitempty"`
	EffUpMs      int    `json:"failover_due_ms,omitempty"` // when the threshold-driven fail-over is due (threshold_ms is the lower bound; they differ only where the statement leaves the value open)
	Place        string `json:"placement,omitempty"`       // inside-answer | inside-fail | just-inside | outside | caller-deadline
	PAtMs        int    `json:"primary_ends_at_ms,omitempty"`
	CtxTimeoutMs int    `json:"caller_deadline_ms,omitempty"`
	Procs        int    `json:"gomaxprocs"`
	Rep         int    `json:"rep"`
	Seed        int64  `json:"seed"`
}

func (c cell) class() string {
	sb := "nostandby"
	if c.Standby {
		sb = "standby"
	}
	edge := ""
	if c.Edge != "" {
		edge = "|" + c.Edge
	}
	if c.Timed != "" {
		edge = "|timed-" + c.Timed
	}
	if c.Cfg != "" {
		return fmt.Sprintf("%s|cfg-threshold %s (%s)|%s|P=%s,S=%s", sb, c.CfgSpell, c.CfgClass, c.Place, c.POut, c.SOut)
	}
	return fmt.Sprintf("%s|%s|P=%s,S=%s|%s|pause=%s|cancel=%d|race=%d%s", sb, c.Regime, c.POut, c.SOut, c.Order, c.Pause, c.Cancel, c.CancelRace, edge)
}

func (c cell) settleDur() time.Duration { return time.Duration(c.SettleUs) * time.Microsecond }

type statsT struct {
	r1Checks, g2Checks, copyChecks, ddlChecks, defaultDdl atomic.Int64
	slackMu                                               sync.Mutex
	slack                                                 time.Duration
	slackSet                                              bool
}

func (s *statsT) minSlack(d time.Duration) {
	s.slackMu.Lock()
	if !s.slackSet || d < s.slack {
		s.slack, s.slackSet = d, true
	}
	s.slackMu.Unlock()
}

var stats statsT

// splitMix is a cheap seed-determined generator for per-case choices
// (math/rand's seeding costs more than a whole case).
type splitMix struct{ x uint64 }

func newSplitMix(seed int64) *splitMix {
	return &splitMix{x: uint64(seed)*0x9E3779B97F4A7C15 + 0x1234567}
}

func (s *splitMix) next() uint64 {
	s.x += 0x9E3779B97F4A7C15
	z := s.x
	z = (z ^ (z >> 30)) * 0xBF58476D1CE4E5B9
	z = (z ^ (z >> 27)) * 0x94D049BB133111EB
	return z ^ (z >> 31)
}
func (s *splitMix) Intn(n int) int       { return int(s.next() % uint64(n)) }
func (s *splitMix) Int63n(n int64) int64 { return int64(s.next() % uint64(n)) }

// ---------------------------------------------------------------- plugin instances

type fbKey struct {
	standby bool
	ms      int
}

var plugins = map[fbKey]sequence.Executable{}

var testMosdns *coremain.Mosdns

func buildPlugins() {
	m := coremain.NewTestMosdnsWithPlugins(map[string]any{
		"c20_primary":   &worker{role: roleP},
		"c20_secondary": &worker{role: roleS},
	})
	testMosdns = m
	for _, sb := range []bool{false, true} {
		for _, ms := range []int{5000, 10, 20, 40, 1, 2, 3, timedThresholdMs} {
			bp := coremain.NewBP(fmt.Sprintf("c20_fallback_%v_%d", sb, ms), m)
			p, err := fallback.Init(bp, &fallback.Args{Primary: "c20_primary", Secondary: "c20_secondary", Threshold: ms, AlwaysStandby: sb})
			if err != nil {
				fmt.Println("cannot build the fallback plugin:", err)
				os.Exit(3)
			}
			ex := sequence.ToExecutable(p)
			if ex == nil {
				fmt.Println("fallback plugin is not executable")
				os.Exit(3)
			}
			plugins[fbKey{sb, ms}] = ex
		}
	}
}

// ---------------------------------------------------------------- one case

type caseResult struct {
	findings []finding
	points   int
	actions  int
	nontriv  bool
	fp       string
	r        *run
}

var errCause = errors.New("c20: caller gave up (cancel cause)")

func newRun(c cell) *run {
	id := caseSeq.Add(1)
	fb := plugins[fbKey{c.Standby, c.ThresholdMs}]
	if c.Cfg != "" {
		fb = cfgPlugin(c)
	}
	r := &run{c: c, name: fmt.Sprintf("c%d.c20.test.", id), thr: time.Duration(c.ThresholdMs) * time.Millisecond,
		fb: fb, first: map[string]int{}, wake: make(chan struct{}),
		resumeCh: make(chan struct{})}
	r.relCh[0], r.relCh[1] = make(chan struct{}), make(chan struct{})
	r.out = [2]string{c.POut, c.SOut}
	r.errAns = [2]bool{c.PErrAns, c.SErrAns}
	q := new(dns.Msg)
	q.SetQuestion(r.name, dns.TypeA)
	q.Id = uint16(c.Seed>>7) | 1
	r.origID = q.Id
	r.qctx = query_context.NewContext(q)
	switch c.CtxKind {
	case "deadline":
		ddl := time.Now().Add(time.Hour + time.Duration(c.Seed%1000)*time.Millisecond)
		ctx, cancel := context.WithDeadline(context.Background(), ddl)
		r.ctx, r.cancelFn, r.callerDdl, r.hasDdl = ctx, cancel, ddl, true
	case "cause":
		ctx, cancel := context.WithCancelCause(context.Background())
		r.ctx, r.cancelFn, r.cause = ctx, func() { cancel(errCause) }, errCause
	case "timeout":
		r.timeout = 15 * time.Millisecond
		if c.CtxTimeoutMs > 0 {
			r.timeout = time.Duration(c.CtxTimeoutMs) * time.Millisecond
		}
		r.ctxCreated = now()
		ctx, cancel := context.WithTimeout(context.Background(), r.timeout)
		r.ctx, r.cancelFn = ctx, cancel
		r.callerDdl, r.hasDdl = ctx.Deadline()
	default:
		ctx, cancel := context.WithCancel(context.Background())
		r.ctx, r.cancelFn = ctx, cancel
	}
	runs.Store(r.name, r)
	return r
}

func runCase(c cell) caseResult {
	r := newRun(c)
	if c.Cfg != "" {
		r.executeCfg()
	} else if c.Timed != "" {
		r.executeTimed()
	} else if c.Edge != "" {
		r.executeEdge()
	} else {
		r.execute(c.Rep%4 == 3)
	}
	r.log("cleanup", "")
	r.cleanup()
	res := caseResult{findings: r.judge(), points: r.points, actions: r.actions, r: r}
	if r.harnessProblem != "" {
		rep.Inconclusive("harness: %s in case %s", r.harnessProblem, c.class())
	}
	// fingerprint: class + realised event order up to the return
	var sig []string
	for _, e := range r.snapshot() {
		if e.Kind == "cleanup" {
			break
		}
		k := e.Kind
		if strings.HasSuffix(k, ".end") || k == "return" {
			k += "(" + strings.Fields(e.Info + " -")[0] + ")"
		}
		sig = append(sig, k)
	}
	res.fp = fmt.Sprintf("%s|procs=%d|%s", c.class(), c.Procs, strings.Join(sig, ">"))
	if fam := c.errFamilies(); fam != "" {
		res.fp += "|branch-error-family=" + fam
	}
	res.nontriv = r.over && r.harnessProblem == "" && r.stall == "" &&
		((c.Cancel < 0 && c.CancelRace < 0) || r.cancelled)
	return res
}

// ---------------------------------------------------------------- units

type unit struct {
	c     cell
	reps  int
	base  int // index of the base cell
	learn bool
}

type learned struct {
	points, actions int
}

var (
	violCases atomic.Int64
	aborted   atomic.Bool
	sampleMu  sync.Mutex
	sampled   = map[string]bool{}
)

const abortAfter = 120

func sampleKind(c cell, r *run) string {
	switch {
	case c.Standby && c.Regime == "long" && c.Order == "Sfirst" && c.Pause == "hold" && c.POut == "answer" && c.SOut == "answer" && c.Cancel < 0 && c.CancelRace < 0:
		return "R2 attack: standby secondary finished first, primary parked after signalling done"
	case c.Standby && c.Regime == "long" && c.Pause == "hold+other" && c.POut != "answer" && c.SOut == "answer" && c.Cancel < 0 && c.CancelRace < 0:
		return "primFailed window: secondary finishes while the failed primary is parked"
	case !c.Standby && c.Regime == "short" && c.Order == "Pslow" && c.SOut == "answer" && c.Cancel < 0 && c.CancelRace < 0:
		return "R1/R4: primary slow, secondary started by the threshold timer and wins"
	case c.Standby && c.Regime == "short" && c.Order == "Pslow" && c.SOut == "answer" && !c.Late && c.Cancel < 0 && c.CancelRace < 0:
		return "R4: standby answer released when the threshold passes"
	case c.Order == "together" && c.Regime == "short" && c.POut == "answer" && c.SOut == "answer" && c.Cancel < 0 && c.CancelRace < 0:
		return "both released at once after the threshold"
	case c.Cancel >= 0 && r.window && r.cancelled:
		return "R6: context cancelled inside the pause window"
	case c.CtxKind == "timeout":
		return "R6: caller deadline passes while both workers are held"
	case c.POut != "answer" && c.SOut != "answer" && c.Cancel < 0 && c.CancelRace < 0 && !c.Standby:
		return "R5: both fail"
	}
	return ""
}

// runTimedUnit: timed cells (timed.go). A case that fails the machine-was-on-time
// guard is retried; a late verdict has to reproduce immediately to be reported.
func runTimedUnit(u unit, local map[string]int64) {
	for i := 0; i < u.reps; i++ {
		if aborted.Load() {
			return
		}
		c := u.c
		c.Rep = i
		rng := newSplitMix(u.c.Seed + int64(i)*7919)
		c.CtxKind = []string{"nodeadline", "deadline"}[rng.Intn(2)]
		for try := 0; try < 3; try++ {
			c.Seed = rng.Int63n(1 << 40)
			res := runCase(c)
			rep.Eval(1)
			local["cases"]++
			local["cases:timed/"+c.Timed]++
			report := func(res caseResult, fs []finding) {
				for _, f := range fs {
					rep.Violation(f.Key, f.What, map[string]any{"cell": c, "events": res.r.snapshot(), "mismatch": res.r.mm})
				}
				if violCases.Add(1) >= abortAfter {
					aborted.Store(true)
				}
			}
			if len(res.findings) > 0 {
				report(res, res.findings)
				return
			}
			ti := res.r.timed
			if ti.discard != "" {
				local["timed_cases_not_judged(machine late)"]++
				rep.Extra("timed_last_not_judged_reason", ti.discard)
				continue
			}
			if !ti.late {
				local["timed_cases_on_time"]++
				rep.Max("timed_max_return_lateness_us(after threshold, on-time cases)", int64((ti.retAt-ti.dueAt)/time.Microsecond))
				rep.Nontrivial(res.fp)
				local["nontrivial_cases"]++
				sampleMu.Lock()
				if k := "timed " + c.Timed; !sampled[k] && rep.WantSample() {
					sampled[k] = true
					rep.Sample(map[string]any{"what": k, "case": c, "result": res.r.result, "events": res.r.snapshot()})
				}
				sampleMu.Unlock()
				break
			}
			// late with the machine on time: must reproduce at once
			local["timed_late_candidates"]++
			c.Seed = rng.Int63n(1 << 40)
			res2 := runCase(c)
			rep.Eval(1)
			local["cases"]++
			if len(res2.findings) > 0 {
				report(res2, res2.findings)
				return
			}
			if res2.r.timed.late {
				t2 := res2.r.timed
				report(res2, []finding{{"R4-standby-" + t2.lateWhat, t2.lateText + " (reproduced in two consecutive executions)"}})
				return
			}
			local["timed_late_not_reproduced"]++
		}
	}
}

func runUnit(u unit, lrn []learned, local map[string]int64) {
	caselog.Log(u.c)
	if u.c.Timed != "" {
		runTimedUnit(u, local)
		return
	}
	if u.c.Cfg != "" {
		runCfgCell(u.c, local)
		return
	}
	for i := 0; i < u.reps; i++ {
		if aborted.Load() {
			local["units_cut_short_after_abort"]++
			return
		}
		c := u.c
		c.Rep = i
		rng := newSplitMix(u.c.Seed + int64(i)*7919)
		c.Seed = rng.Int63n(1 << 40)
		if c.POut == "error" {
			c.PErrAns = rng.Intn(3) == 0
		}
		if c.SOut == "error" {
			c.SErrAns = rng.Intn(3) == 0
		}
		// error-kind dimension (errkind.go); its own generator so that the other choices of the rep stay as they were
		ekRng := newSplitMix(c.Seed ^ 0x0e44c1d)
		if c.POut == "error" {
			c.PErrKind = pickErrKind(ekRng)
		}
		if c.SOut == "error" {
			c.SErrKind = pickErrKind(ekRng)
		}
		if c.Regime == "short" {
			c.ThresholdMs = []int{20, 20, 10, 40}[rng.Intn(4)]
			c.Late = rng.Intn(2) == 0
		}
		if c.Edge != "" {
			c.ThresholdMs = 1 + rng.Intn(3)
			c.EdgeDeltaUs = rng.Intn(60) - 10
			if c.Edge == "P-at-edge" {
				c.EdgeDeltaUs = rng.Intn(150) - 20
			}
		}
		if c.CtxKind == "" {
			if c.Cancel >= 0 || c.CancelRace >= 0 {
				c.CtxKind = []string{"nodeadline", "deadline", "cause"}[rng.Intn(3)]
			} else {
				c.CtxKind = []string{"nodeadline", "deadline"}[rng.Intn(2)]
			}
		}
		res := runCase(c)
		rep.Eval(1)
		local["cases"]++
		if c.Edge != "" {
			local["cases:threshold-edge/"+c.Edge]++
		} else {
			local["cases:"+c.Regime+"/"+c.Order+"/pause="+c.Pause]++
		}
		if c.Cancel >= 0 || c.CancelRace >= 0 {
			local["cases_with_context_end"]++
			if res.r.cancelled {
				local["context_end_realised"]++
				if res.r.heldAtReturn > 0 {
					local["returned_on_context_end_with_workers_still_held"]++
				}
			}
		}
		if res.r.window {
			local["pause_windows_realised"]++
			if res.r.relInWin {
				local["secondary_reached_release_point_inside_window"]++
			}
		} else if c.Pause != "none" && res.r.has("P.end") && !res.r.cancelled {
			local["pause_requested_but_point_not_reached"]++
		}
		if res.r.has("return") {
			local["result:"+res.r.result]++
		}
		if res.r.heldAtReturn > 0 && res.r.mm == nil && !res.r.cancelled {
			local["returned_while_a_worker_was_still_held"]++
		}
		if u.learn {
			l := &lrn[u.base]
			if res.points > l.points {
				l.points = res.points
			}
			if res.actions > l.actions {
				l.actions = res.actions
			}
		}
		if res.nontriv && len(res.findings) == 0 {
			rep.Nontrivial(res.fp)
			local["nontrivial_cases"]++
			// error-kind coverage: which kinds actually failed a branch in a judged case, and what the model demanded then
			for role, kind := range [2]string{c.PErrKind, c.SErrKind} {
				if kind == "" || !res.r.has(roleName[role]+".end") || c.Edge != "" {
					continue
				}
				local["errkind_judged:"+roleName[role]+"="+kind]++
				if fam := errFamily(kind); c.Cancel < 0 && c.CancelRace < 0 {
					other := [2]string{c.SOut, c.POut}[role]
					what := "other-branch-fails-too=>ErrFailed"
					if other == "answer" {
						what = "other-branch-answers"
					}
					local["errkind_family_judged:"+fam+"/"+roleName[role]+"-fails/"+what+"/"+c.Regime]++
				}
			}
		}
		if k := sampleKind(c, res.r); k != "" && len(res.findings) == 0 && res.nontriv {
			sampleMu.Lock()
			if !sampled[k] && rep.WantSample() {
				sampled[k] = true
				rep.Sample(map[string]any{"what": k, "case": c, "result": res.r.result, "events": res.r.snapshot()})
			}
			sampleMu.Unlock()
		}
		if len(res.findings) > 0 {
			// A failing branch's error was not the plain one: does the SAME cell hold with the
			// plain scripted error? Then the finding is about the error kind and its key says so.
			if fam := c.errFamilies(); fam != "" {
				local["findings_with_non_plain_branch_error"]++
				plainHolds := true
				for k := 0; k < 3 && plainHolds; k++ {
					cc := c
					cc.PErrKind, cc.SErrKind = "", ""
					cc.Seed = rng.Int63n(1 << 40)
					ctl := runCase(cc)
					rep.Eval(1)
					local["cases"]++
					local["control_cases_with_plain_error"]++
					plainHolds = len(ctl.findings) == 0 && ctl.nontriv
				}
				if plainHolds {
					kinds := strings.Trim(c.PErrKind+"/"+c.SErrKind, "/")
					for i := range res.findings {
						res.findings[i].Key += "~only-when-branch-fails-with-" + fam + "-error"
						res.findings[i].What += fmt.Sprintf("; the failing branch(es) returned error kind %s (primary %q, secondary %q; family %s: %s) while the caller's context was alive; the same cell held in 3 control executions with the plain scripted error", kinds, c.PErrKind, c.SErrKind, fam, familyText[fam])
					}
				}
			}
			for _, f := range res.findings {
				rep.Violation(f.Key, f.What, map[string]any{"cell": c, "events": res.r.snapshot(), "mismatch": res.r.mm})
			}
			if violCases.Add(1) >= abortAfter {
				aborted.Store(true)
			}
			return // this unit is decided
		}
	}
}

func runUnits(units []unit, lrn []learned, parallel int) {
	ch := make(chan unit)
	var wg sync.WaitGroup
	var mu sync.Mutex
	total := map[string]int64{}
	for w := 0; w < parallel; w++ {
		wg.Add(1)
		go func() {
			defer wg.Done()
			local := map[string]int64{}
			for u := range ch {
				runUnit(u, lrn, local)
			}
			mu.Lock()
			for k, v := range local {
				total[k] += v
			}
			mu.Unlock()
		}()
	}
	for _, u := range units {
		ch <- u
	}
	close(ch)
	wg.Wait()
	for k, v := range total {
		rep.Count(k, v)
	}
}

func baseCells() []cell {
	var out []cell
	outs := []string{"answer", "none", "error"}
	for _, sb := range []bool{true, false} {
		for _, ro := range []struct{ regime, order string }{
			{"long", "Pfirst"}, {"long", "Sfirst"}, {"long", "together"},
			{"short", "Pslow"}, {"short", "Sslow"}, {"short", "together"}} {
			pauses := []string{"none"}
			if ro.regime == "long" {
				pauses = []string{"none", "hold", "hold+other"}
				if ro.order == "together" {
					pauses = []string{"none", "hold"}
				}
			}
			for _, pause := range pauses {
				for _, po := range outs {
					for _, so := range outs {
						ms := 5000
						if ro.regime == "short" {
							ms = 20
						}
						out = append(out, cell{Standby: sb, Regime: ro.regime, ThresholdMs: ms, POut: po, SOut: so,
							Order: ro.order, Pause: pause, Cancel: -1, CancelRace: -1})
					}
				}
			}
		}
	}
	return out
}

func main() {
	rep = evid.New("C20", "exploration")
	caselog = evid.OpenCaseLog()
	rep.SetRule("cells = always_standby{on,off} x regime/order{long threshold 5 s: P first, S first, together; short threshold 10-40 ms with the primary held past it: P slow (S released first), S slow (P released first), together} x primary{answer,no answer,error(+/- stale response; error kind drawn per repetition from {plain, context.DeadlineExceeded, context.Canceled, wrapped / joined / errors.Is-method / own sub-context timeout or cancel cause variants of those, net timeout, (wrapped) fallback.ErrFailed, io errors}, always while the caller's context is alive)} x secondary{same} x hook pause{none, primary parked at fallback.primary.signalled, parked + secondary finishes inside the window} x caller context{never ends, ends at each pending point incl. inside the pause window, cancelled together with each release, deadline expiry} x GOMAXPROCS{1,2,16}, each repeated; plus configured-threshold cells: the plugin built from YAML text through the real args decoder and Init with the threshold key {absent, 0, negative, 1, a few ms, below/around/above the 500 ms default, 4999, 5000, 5001, 6000, seeded values up to hours} in three spellings x always_standby x placement of the primary relative to the CONFIGURED threshold {answers inside (later than the 500 ms default where possible), fails inside, held past it, caller deadline shorter than it}; one case = one fallback call with scripted workers that finish only when released; non-trivial = the controller reached the scripted decisive state (all scripted starts/ends/hook events observed in order, context end realised where scripted) and a verdict was taken; distinct = cell class x GOMAXPROCS x realised event order")
	rep.Assume("a Go timer cannot fire early: S.start / a returned secondary answer earlier than the threshold after call start is judged, never a duration against an upper bound")
	rep.Assume("'primary in time' is certain by construction: it is released within milliseconds while the threshold is 5000 ms (cases that take longer than 2.5 s are reported inconclusive)")
	rep.Assume("'the call returns' is restated as returning within 4 s of the enabling event (nominal < 1 ms, resp. the 10-40 ms threshold)")
	rep.Assume("configured-threshold cells: an absent or 0 threshold means the documented default of 500 ms; a negative threshold is not given a meaning by the statement (nothing is judged 'too early' there); 'primary within the threshold' is demanded only when the primary's end was logged at least half its nominal margin before the configured threshold; a fail-over later than threshold + 150 ms + 5% is judged only with the machine demonstrably on time (reference timer chain and lag monitor < 30 ms) and reproduced at once")
	rep.Assume("when the caller's context ends at the same time as a result becomes due, either the result or the context error is accepted")
	rep.Assume("how a branch fails (which error value it returns) is irrelevant to the statement: every error kind is judged by the same model and rules as the plain scripted error; 'fail-over at once, not at the threshold' is decided in the long regime (threshold 5 s, progress bound 4 s, scheduling lag > 1 s makes the case inconclusive)")
	go lagMonitor()
	buildPlugins()
	sched.On("fallback.primary.signalled", hookPrimarySignalled)
	sched.On("fallback.secondary.finished", hookSecondary("hook.S.finished"))
	sched.On("fallback.secondary.releasing", hookSecondary("hook.S.releasing"))
	// seeded jitter at the three schedule points widens the unforced interleavings
	// (no verdict compares a duration with an upper bound, so this cannot create alarms)
	sched.Perturb(rep.Seed, 0.15, 300*time.Microsecond, "fallback.primary.signalled", "fallback.secondary.finished", "fallback.secondary.releasing")

	settleUs := 2000

	if rep.ReplayFile != "" {
		var c struct {
			Cell cell `json:"cell"`
		}
		if err := rep.LoadReplay(&c); err != nil {
			fmt.Println("cannot load replay:", err)
			os.Exit(3)
		}
		if c.Cell.Procs > 0 {
			runtime.GOMAXPROCS(c.Cell.Procs)
		}
		u := unit{c: c.Cell, reps: 200}
		if c.Cell.Timed != "" {
			u.reps = 4
		}
		local := map[string]int64{}
		if c.Cell.Cfg != "" {
			// configured-threshold cell: runCfgCell re-executes it (same keys as in the sweep)
			runUnit(u, nil, local)
			for k, v := range local {
				rep.Count(k, v)
			}
			rep.Finish()
		}
		// re-execute exactly the recorded case first, then neighbours
		res := runCase(c.Cell)
		rep.Eval(1)
		for _, f := range res.findings {
			rep.Violation(f.Key, f.What, map[string]any{"cell": c.Cell, "events": res.r.snapshot(), "mismatch": res.r.mm})
		}
		if len(res.findings) == 0 {
			runUnit(u, nil, local)
		}
		for k, v := range local {
			rep.Count(k, v)
		}
		rep.Finish()
	}

	repsLong := rep.Pick(100, 1000)
	repsShort := rep.Pick(24, 240)
	repsEdge := rep.Pick(400, 5000)
	repsTimed := rep.Pick(2, 12)
	parallel := 96
	rng := rand.New(rand.NewSource(rep.Seed))
	bases := baseCells()
	procsList := []int{1, 2, 16}
	nUnits := 0
	passWall := map[string]float64{}
	var cfgDone chan struct{}
	for pi, procs := range procsList {
		runtime.GOMAXPROCS(procs)
		passStart := time.Now()
		if procs == 16 {
			// configured-threshold cells (cfg.go) sleep for up to the configured 5-6 s:
			// they run next to this pass
			cfgDone = startCfgPhase()
		}
		share := func(n int) int {
			x := n * []int{20, 20, 60}[pi] / 100
			if x < 1 {
				x = 1
			}
			return x
		}
		// threshold-edge cases are mixed into both phases so that ordinary cases
		// running next to them pick up whatever the edge does to pooled timers
		edgeUnits := func() []unit {
			var us []unit
			if procs < 16 {
				return nil // releasing a timer while it fires needs real parallelism
			}
			for i := 0; i < 64; i++ {
				c := cell{Standby: i%2 == 0, Regime: "short", ThresholdMs: 1, POut: "answer", SOut: "error", Order: "together",
					Pause: "none", Cancel: -1, CancelRace: -1, Edge: "S-at-edge", Procs: procs, SettleUs: settleUs, Seed: rng.Int63n(1 << 40)}
				if !c.Standby {
					c.Edge = "P-at-edge"
				}
				us = append(us, unit{c: c, reps: repsEdge, base: -1})
			}
			// timed cells (upper-bound oracle, guarded by the lag monitor): they mostly sleep
			for i := 0; i < 24; i++ {
				c := cell{Standby: true, Regime: "short", ThresholdMs: timedThresholdMs, SAtMs: timedSAtMs, POut: "answer", SOut: "answer",
					Order: "Pslow", Pause: "none", Cancel: -1, CancelRace: -1, Timed: []string{"deadline", "p-release"}[i%2],
					Procs: procs, SettleUs: settleUs, Seed: rng.Int63n(1 << 40)}
				us = append(us, unit{c: c, reps: repsTimed, base: -1})
			}
			return us
		}
		// phase 1: the caller's context never ends; learn how many pending points / releases each cell has
		lrn := make([]learned, len(bases))
		var units []unit
		for bi, b := range bases {
			b.Procs, b.SettleUs, b.Seed = procs, settleUs, rng.Int63n(1<<40)
			n := share(repsLong)
			if b.Regime == "short" {
				n = share(repsShort)
			}
			units = append(units, unit{c: b, reps: n, base: bi, learn: true})
		}
		units = append(units, edgeUnits()...)
		rng.Shuffle(len(units), func(i, j int) { units[i], units[j] = units[j], units[i] })
		nUnits += len(units)
		runUnits(units, lrn, parallel)
		// phase 2: the caller's context ends at every pending point / together with every release / by deadline
		units = units[:0]
		for bi, b := range bases {
			b.Procs, b.SettleUs = procs, settleUs
			n := share(repsLong)
			if b.Regime == "short" {
				n = share(repsShort)
			}
			n = (n + 1) / 2
			for k := 0; k < lrn[bi].points; k++ {
				v := b
				v.Cancel, v.Seed = k, rng.Int63n(1<<40)
				units = append(units, unit{c: v, reps: n, base: bi})
			}
			for j := 0; j < lrn[bi].actions; j++ {
				v := b
				v.CancelRace, v.Seed = j, rng.Int63n(1<<40)
				units = append(units, unit{c: v, reps: n, base: bi})
			}
			if b.Regime == "long" && b.Pause == "none" {
				v := b
				v.Cancel, v.CtxKind, v.Seed = 0, "timeout", rng.Int63n(1<<40)
				units = append(units, unit{c: v, reps: (n + 3) / 4, base: bi})
			}
		}
		units = append(units, edgeUnits()...)
		rng.Shuffle(len(units), func(i, j int) { units[i], units[j] = units[j], units[i] })
		nUnits += len(units)
		runUnits(units, lrn, parallel)
		passWall[fmt.Sprintf("gomaxprocs=%d", procs)] = time.Since(passStart).Seconds()
	}
	runtime.GOMAXPROCS(16)
	if cfgDone != nil {
		w := time.Now()
		<-cfgDone
		passWall["waiting for the configured-threshold cells after the last pass"] = time.Since(w).Seconds()
	}
	rep.Extra("pass_wall_s", passWall)

	rep.Count("units(cell x context-end variant x GOMAXPROCS)", int64(nUnits))
	rep.Count("base_cells", int64(len(bases)))
	rep.Count("R1_secondary_starts_checked", stats.r1Checks.Load())
	rep.Count("secondary_answers_returned_after_threshold_checked", stats.g2Checks.Load())
	rep.Count("worker_context_copy_checks", stats.copyChecks.Load())
	rep.Count("worker_deadline_equals_caller_deadline_checks", stats.ddlChecks.Load())
	rep.Count("worker_got_default_deadline(caller had none)", stats.defaultDdl.Load())
	rep.Count("late_worker_starts_after_case_end", lateWork.Load())
	rep.Count("hook_calls_after_case_end", hookNoRun.Load())
	if stats.slackSet {
		rep.Extra("min_observed_(elapsed-threshold)_us_at_timer_driven_failover", float64(stats.slack)/1e3)
	}
	for name, n := range sched.Counts() {
		rep.Count("hook:"+name, n)
	}
	rep.Extra("max_scheduling_lag_ms", float64(maxLagNs.Load())/1e6)
	if aborted.Load() {
		rep.Extra("aborted_early", fmt.Sprintf("stopped scheduling new cases after %d violating cases", abortAfter))
	}
	left := leak.WaitNone([]string{"sequence/fallback."}, nil, 8*time.Second)
	rep.Count("fallback_goroutines_left_after_everything_was_released", int64(len(left)))
	if !aborted.Load() && rep.Violations() == 0 {
		if sched.Count("fallback.primary.signalled") == 0 || sched.Count("fallback.secondary.finished") == 0 || sched.Count("fallback.secondary.releasing") == 0 {
			rep.Inconclusive("a fallback schedule point was never reached (built without -tags verif?)")
		}
		if rep.Get("pause_windows_realised") == 0 {
			rep.Inconclusive("the pause window after fallback.primary.signalled was never realised")
		}
		if rep.Get("timed_cases_on_time") == 0 {
			rep.Inconclusive("no timed case could be judged: the machine was late in all %d attempts", rep.Get("timed_cases_not_judged(machine late)"))
		}
		if p := cfgCoverageProblem(); p != "" {
			rep.Inconclusive("%s (machine too slow to place the primary inside the configured threshold in 3 tries?)", p)
		}
		for _, k := range []string{"context/P-fails/other-branch-answers/long", "context/P-fails/other-branch-fails-too=>ErrFailed/long", "context/S-fails/other-branch-fails-too=>ErrFailed/long", "sentinel/P-fails/other-branch-answers/long", "net-timeout/P-fails/other-branch-answers/long"} {
			if rep.Get("errkind_family_judged:"+k) == 0 {
				rep.Inconclusive("error-kind dimension: no judged case of class %s", k)
			}
		}
		if rep.Get("context_end_realised") == 0 || rep.Get("R1_secondary_starts_checked") == 0 {
			rep.Inconclusive("monitor observed no context end / no secondary start")
		}
	}
	rep.Finish()
}
