package main

// Configured-threshold cells: the dimension "which threshold did the operator
// configure" (the other phases build their plugins with a handful of fixed values
// and finish every long-regime case within milliseconds, so they never see what
// threshold the plugin really runs with).
//
// The plugin is built the way mosdns builds it from a config file: YAML text ->
// coremain.PluginConfig -> the registered args type through utils.WeakDecode ->
// the registered Init. The threshold key walks the configuration space
//   absent | 0 | negative | 1 | a few ms | below / around / above the 500 ms
//   default | around 5 s (the workers' default lifetime) | above 5 s | minutes, hours
// in three YAML spellings, x always_standby on/off, and every configured value is
// probed from both sides by placing the primary's completion relative to the
// CONFIGURED threshold T:
//
//   inside-answer   the primary answers at p < T (p > the 500 ms default wherever
//                   T allows, so that a silently substituted default shows)
//   inside-fail     the primary fails at p < T: fail-over on failure, not on the timer
//   just-inside     (thorough) p = T - max(T/10, 200 ms)
//   outside         the primary is held past T: the secondary has to be started /
//                   its standby answer released once T has passed
//   caller-deadline the caller's deadline d < T ends the call while both are held
//
// Verdicts are taken on logged events and lower bounds only: a secondary start or
// a returned secondary answer earlier than T after the call began, with the
// primary not failed, is a violation whatever the machine load (a Go timer cannot
// fire early); "the primary's answer is returned" is demanded only if the primary
// demonstrably ended at least (T-p)/2 before T (otherwise the case is retried and
// both answers are accepted). The one upper bound — fail-over later than T + slack
// — is handled like the timed cells: only with the machine demonstrably on time
// and only if it reproduces at once. Cases sleep most of the time; they run
// concurrently with the GOMAXPROCS=16 pass so that a 5-6 s threshold costs no
// extra wall time.

import (
	"fmt"
	"math/rand"
	"os"
	"sort"
	"strings"
	"sync"
	"sync/atomic"
	"time"

	"github.com/IrineSistiana/mosdns/v5/coremain"
	"github.com/IrineSistiana/mosdns/v5/pkg/utils"
	"github.com/IrineSistiana/mosdns/v5/plugin/executable/sequence"
	"github.com/IrineSistiana/mosdns/v5/plugin/executable/sequence/fallback"
	"gopkg.in/yaml.v3"
)

const documentedDefaultMs = 500 // Args.Threshold: "Threshold in milliseconds. Default is 500."

type cfgInfo struct {
	ran      bool
	missed   bool   // the placement was not realised (machine late): relaxed verdict, case retried
	late     bool   // late fail-over candidate (machine on time)
	lateWhat string // key suffix
	lateText string
	discard  string // late, but so was the machine
	lateness time.Duration
	onTime   bool
	lifetime bool // standby, caller without deadline, threshold beyond the workers' default lifetime
}

// ---------------------------------------------------------------- building the plugin from config text

type thrSpec struct {
	key    string // YAML value of the threshold key, "" = key absent
	hasKey bool
	cfgMs  int
	class  string
	effLo  int // ms: nothing threshold-driven may happen earlier
	effUp  int // ms: when the threshold-driven fail-over is due
	style  int // 0 block, 1 block with the number quoted, 2 flow mapping
}

func (s thrSpec) spelling() string {
	if !s.hasKey {
		return "(threshold key absent)"
	}
	v := s.key
	if s.style == 1 {
		v = `"` + v + `"`
	}
	sp := "threshold: " + v
	if s.style == 2 {
		sp = "{…, " + sp + "}"
	}
	return sp
}

func (s thrSpec) yaml(standby bool) string {
	v := s.key
	if s.style == 1 {
		v = `"` + v + `"`
	}
	if s.style == 2 {
		thr := ""
		if s.hasKey {
			thr = ", threshold: " + v
		}
		return fmt.Sprintf("tag: c20_cfg\ntype: fallback\nargs: {secondary: c20_secondary, primary: c20_primary%s, always_standby: %v}\n", thr, standby)
	}
	thr := ""
	if s.hasKey {
		thr = "  threshold: " + v + "\n"
	}
	return fmt.Sprintf("tag: c20_cfg\ntype: fallback\nargs:\n  primary: c20_primary\n  secondary: c20_secondary\n%s  always_standby: %v\n", thr, standby)
}

var (
	cfgMu      sync.Mutex
	cfgPlugins = map[string]sequence.Executable{}
)

// buildCfgPlugin follows coremain's (unexported) newPlugin step by step.
func buildCfgPlugin(text string) (sequence.Executable, *fallback.Args, error) {
	var pc coremain.PluginConfig
	if err := yaml.Unmarshal([]byte(text), &pc); err != nil {
		return nil, nil, fmt.Errorf("yaml: %w", err)
	}
	info, ok := coremain.GetPluginType(pc.Type)
	if !ok {
		return nil, nil, fmt.Errorf("plugin type %q is not registered", pc.Type)
	}
	args := info.NewArgs()
	if err := utils.WeakDecode(pc.Args, args); err != nil {
		return nil, nil, fmt.Errorf("unable to decode plugin args: %w", err)
	}
	p, err := info.NewPlugin(coremain.NewBP(pc.Tag, testMosdns), args)
	if err != nil {
		return nil, nil, fmt.Errorf("failed to init plugin: %w", err)
	}
	ex := sequence.ToExecutable(p)
	if ex == nil {
		return nil, nil, fmt.Errorf("plugin is not executable")
	}
	fa, _ := args.(*fallback.Args)
	return ex, fa, nil
}

func cfgPlugin(c cell) sequence.Executable {
	cfgMu.Lock()
	defer cfgMu.Unlock()
	if p, ok := cfgPlugins[c.Cfg]; ok {
		return p
	}
	ex, _, err := buildCfgPlugin(c.Cfg)
	if err != nil {
		fmt.Printf("cannot build the fallback plugin from %q: %v\n", c.Cfg, err)
		os.Exit(3)
	}
	cfgPlugins[c.Cfg] = ex
	return ex
}

// ---------------------------------------------------------------- the configuration space

func cfgSpecs(rng *rand.Rand) []thrSpec {
	var out []thrSpec
	add := func(class string, ms int, styles ...int) {
		lo, up := ms, ms
		switch {
		case ms == 0:
			lo, up = documentedDefaultMs, documentedDefaultMs
		case ms < 0:
			// the statement does not say what a negative threshold means: nothing is
			// "too early"; the fail-over still has to happen (the code documents the default)
			lo, up = 0, documentedDefaultMs
		}
		for _, st := range styles {
			out = append(out, thrSpec{key: fmt.Sprint(ms), hasKey: true, cfgMs: ms, class: class, effLo: lo, effUp: up, style: st})
		}
	}
	st := func() int { return rng.Intn(3) }
	out = append(out, thrSpec{class: "default", effLo: documentedDefaultMs, effUp: documentedDefaultMs, style: 0},
		thrSpec{class: "default", effLo: documentedDefaultMs, effUp: documentedDefaultMs, style: 2})
	add("default", 0, 0, 1)
	add("negative", -1, st())
	add("negative", -(2 + rng.Intn(5000)), st())
	add("below-default", 1, st())
	add("below-default", 5+rng.Intn(46), st())
	add("below-default", 400+rng.Intn(90), st())
	add("around-default", 499, st())
	add("around-default", 500, st())
	add("around-default", 501, st())
	add("above-default", 600+rng.Intn(900), st())
	add("above-default", 1500+rng.Intn(3400), st())
	add("around-5s", 4999, st())
	add("around-5s", 5000, 0, 1, 2)
	add("around-5s", 5001, st())
	add("above-5s", 6000, 0, 1, 2)
	add("above-5s", 5002+rng.Intn(1400), st())
	add("above-5s", 6500+rng.Intn(3500), st())
	add("above-5s", 10000*(1+rng.Intn(12)), st())
	add("above-5s", 3600000, st())
	return out
}

func cfgCells(rng *rand.Rand) []cell {
	var out []cell
	maxOutside := rep.Pick(6500, 10000)
	for _, s := range cfgSpecs(rng) {
		for _, sb := range []bool{false, true} {
			base := cell{Standby: sb, Regime: "cfg", ThresholdMs: s.effLo, EffUpMs: s.effUp, POut: "answer", SOut: "answer", Order: "cfg",
				Pause: "none", Cancel: -1, CancelRace: -1, Cfg: s.yaml(sb), CfgClass: s.class, CfgSpell: s.spelling(), Procs: 16, SettleUs: 2000}
			mk := func(place string, f func(c *cell)) {
				c := base
				c.Place = place
				c.Seed = rng.Int63n(1 << 40)
				f(&c)
				out = append(out, c)
			}
			if s.effLo >= 400 {
				pAt := s.effLo / 2
				if s.effLo >= 1900 {
					pAt = 650 + rng.Intn(300) // well past the default, well inside the configured value
				}
				mk("inside-answer", func(c *cell) { c.PAtMs = pAt })
				mk("inside-fail", func(c *cell) { c.PAtMs = pAt; c.POut = []string{"none", "error"}[rng.Intn(2)] })
			}
			if rep.Thorough() && s.effLo >= 1000 && s.effLo <= 6500 {
				d := s.effLo / 10
				if d < 200 {
					d = 200
				}
				mk("just-inside", func(c *cell) {
					c.PAtMs = s.effLo - d
					if sb && c.PAtMs >= 4500 {
						c.CtxKind = "deadline" // keep the workers' default 5 s lifetime out of it
					}
				})
			}
			if s.effUp <= maxOutside {
				mk("outside", func(c *cell) {})
			}
			if s.effLo >= 1500 {
				mk("caller-deadline", func(c *cell) { c.CtxKind = "timeout"; c.CtxTimeoutMs = 700 + rng.Intn(300) })
			}
		}
	}
	return out
}

// ---------------------------------------------------------------- one case

func startRefChain(due time.Duration) *atomic.Int64 {
	var refDone atomic.Int64
	go func() {
		a, b := make(chan struct{}), make(chan struct{})
		go func() { <-a; close(b) }()
		go func() { <-b; refDone.Store(int64(now())) }()
		tm := time.NewTimer(due - now())
		<-tm.C
		close(a)
	}()
	return &refDone
}

func cfgSlack(up time.Duration) time.Duration { return 150*time.Millisecond + up/20 }

func (r *run) executeCfg() {
	c := r.c
	ci := &r.cfg
	ci.ran = true
	lo := r.thr
	up := time.Duration(c.EffUpMs) * time.Millisecond
	r.m = model{standby: c.Standby, long: false, p: "held", s: "idle"}
	go r.call()
	if r.await(progressBound, "P.start") == "" {
		r.stall = "primary-not-started"
		return
	}
	if c.Standby {
		if r.await(progressBound, "S.start") == "" {
			r.stall = "standby-secondary-not-started"
			return
		}
		r.m.s = "held"
	}
	t0 := r.callStart()
	if c.Standby && !r.hasDdl {
		// The caller has no deadline: the workers then live on a default lifetime of
		// their own (makeDdlCtx), and a standby secondary stops standing by when its
		// own context ends. The statement does not say what a threshold beyond the
		// workers' lifetime means for a primary that outlives its context, so the
		// release of the standby answer is not "too early" from that (observed)
		// deadline on.
		r.mu.Lock()
		w := r.w[roleS]
		r.mu.Unlock()
		if life := w.ddl.Sub(base) - t0; w.hasDdl && life < lo {
			lo, r.thr = life, life
			if life < up {
				up = life
			}
			ci.lifetime = true
		}
	}
	endWorker := func(role int) bool {
		r.release(role)
		r.actions++
		if r.await(progressBound, roleName[role]+".end") == "" {
			r.harnessProblem = "released worker did not end"
			r.over = true
			return false
		}
		r.m = r.m.apply(role, r.out[role])
		return true
	}
	// a return the script does not expect yet: the generic rules on the return event judge it
	premature := func(until time.Duration) bool {
		if !r.awaitUntil(until, "return") {
			return false
		}
		r.over = true
		if ret, _ := r.evTime("return"); ret-t0 >= lo-(lo-time.Duration(c.PAtMs)*time.Millisecond)/2 {
			ci.missed = true // the threshold (nearly) passed before the script got there
		}
		return true
	}
	standbyAt := func(ms int) time.Duration {
		d := time.Duration(ms) * time.Millisecond / 8
		if d > 100*time.Millisecond {
			d = 100 * time.Millisecond
		}
		return t0 + d
	}

	switch c.Place {
	case "inside-answer", "inside-fail", "just-inside":
		p := time.Duration(c.PAtMs) * time.Millisecond
		guard := (lo - p) / 2
		if c.Standby { // the standby secondary finishes early and has to wait
			if premature(standbyAt(c.PAtMs)) || !endWorker(roleS) {
				return
			}
		}
		if premature(t0 + p) {
			return
		}
		if !endWorker(roleP) {
			return
		}
		tp, _ := r.evTime("P.end")
		if tp-t0 >= lo-guard {
			ci.missed = true
		}
		note := fmt.Sprintf("primary ended %.0f ms after the call began, configured threshold %v", float64(tp-t0)/1e6, lo)
		if r.out[roleP] == "answer" {
			allowed := []string{resP}
			if ci.missed {
				allowed = []string{resP, resS}
			}
			r.expectReturn("R2", allowed, note)
			return
		}
		if !c.Standby {
			if r.await(progressBound, "S.start") == "" {
				r.stall = "secondary-not-started-after-primary-failure"
				r.over = true
				return
			}
			r.m.s = "held"
			if !endWorker(roleS) {
				return
			}
		}
		r.expectReturn("R3", []string{resS}, note)

	case "outside":
		slack := cfgSlack(up)
		if c.Standby {
			tS, _ := r.evTime("S.start") // the secondary goroutine takes its timer before it runs the secondary
			due := tS + up
			ref := startRefChain(due)
			if premature(standbyAt(c.EffUpMs)) || !endWorker(roleS) {
				return
			}
			if r.await(progressBound, "hook.S.finished") == "" {
				r.harnessProblem = "schedule point fallback.secondary.finished not reached"
				r.over = true
				return
			}
			fin, _ := r.evTime("hook.S.finished")
			checkpoint := due
			if fin > checkpoint {
				checkpoint = fin
			}
			checkpoint += slack
			ci.onTime = r.awaitUntil(checkpoint, "return")
			r.expectReturn("R4", []string{resS}, fmt.Sprintf("standby answer is due once the configured threshold %v has passed; the primary is held", up))
			if ret, ok := r.evTime("return"); ok {
				ci.lateness = ret - (checkpoint - slack)
			}
			if !ci.onTime && r.mm == nil {
				r.cfgLate(t0, due, checkpoint, ref, "standby answer released")
			}
			return
		}
		tP, _ := r.evTime("P.start")
		due := tP + up
		ref := startRefChain(due)
		checkpoint := due + slack
		ci.onTime = r.awaitUntil(checkpoint, "S.start")
		if !ci.onTime && r.await(progressBound, "S.start") == "" {
			r.stall = "secondary-not-started-after-threshold"
			r.over = true
			return
		}
		r.m.s = "held"
		st, _ := r.evTime("S.start")
		ci.lateness = st - due
		if !endWorker(roleS) {
			return
		}
		r.expectReturn("R4", []string{resS}, fmt.Sprintf("the primary is held past the configured threshold %v, the secondary answered", up))
		if !ci.onTime && r.mm == nil {
			r.cfgLate(t0, due, checkpoint, ref, "secondary started")
		}

	case "caller-deadline":
		// both workers stay held; the caller's deadline, shorter than the threshold, ends the call
		r.cancelled = true
		r.expectReturnIn(r.timeout+progressBound, "R6", []string{resCtx}, fmt.Sprintf("caller deadline %v, configured threshold %v, both workers held", r.timeout, lo))
	default:
		r.harnessProblem = "unknown placement " + c.Place
	}
}

// cfgLate: the threshold-driven fail-over had not happened at due+slack. Is the
// machine to blame? (same guard as the timed cells)
func (r *run) cfgLate(t0, due, checkpoint time.Duration, ref *atomic.Int64, what string) {
	ci := &r.cfg
	time.Sleep(3 * time.Millisecond)
	refLate, refKnown := time.Duration(0), false
	if v := ref.Load(); v != 0 {
		refKnown, refLate = true, time.Duration(v)-due
	}
	lag := maxLagBetween(t0, checkpoint)
	if !refKnown || refLate > timedGuard || lag > timedGuard {
		ci.discard = fmt.Sprintf("late, but so was the machine (reference chain late by %v known=%v, scheduling lag %v, guard %v)", refLate, refKnown, lag, timedGuard)
		return
	}
	ci.late = true
	ci.lateWhat = "failover-later-than-configured-threshold"
	ci.lateText = fmt.Sprintf("primary held; the threshold-driven fail-over (%s) was due %v after the call began but had not happened %.0f ms after it began (it happened %.0f ms after it was due); machine on time: reference chain late by %v, max scheduling lag %v",
		what, time.Duration(r.c.EffUpMs)*time.Millisecond, float64(checkpoint-t0)/1e6, float64(ci.lateness)/1e6, refLate, lag)
}

func (r *run) cfgObservation() string {
	t0 := r.callStart()
	var parts []string
	for _, k := range []string{"S.start", "P.end", "return"} {
		if t, ok := r.evTime(k); ok {
			s := fmt.Sprintf("%s@%.0fms", k, float64(t-t0)/1e6)
			if k == "return" {
				s += "=" + r.result
			}
			parts = append(parts, s)
		} else if k == "S.start" {
			parts = append(parts, "no S.start")
		}
	}
	if r.cfg.lifetime {
		parts = append(parts, fmt.Sprintf("[caller without deadline: standby release bounded by the secondary worker's own deadline %.0f ms after the call began]", float64(r.thr)/1e6))
	}
	return r.c.Place + ": " + strings.Join(parts, " ")
}

// ---------------------------------------------------------------- running the cells

var (
	cfgObsMu sync.Mutex
	cfgObs   = map[string][]string{}
)

func cfgDescribe(c cell) string {
	place := c.Place
	switch c.Place {
	case "inside-answer", "just-inside":
		place += fmt.Sprintf(" (primary scripted to answer %d ms after the call begins)", c.PAtMs)
	case "inside-fail":
		place += fmt.Sprintf(" (primary scripted to fail with %q %d ms after the call begins)", c.POut, c.PAtMs)
	case "outside":
		place += " (primary held past the configured threshold)"
	case "caller-deadline":
		place += fmt.Sprintf(" (both workers held, caller deadline %d ms)", c.CtxTimeoutMs)
	}
	return fmt.Sprintf("plugin built from config %q through yaml + WeakDecode + Init (threshold class %s), placement %s",
		strings.ReplaceAll(strings.TrimSpace(c.Cfg), "\n", "; "), c.CfgClass, place)
}

func runCfgCell(c0 cell, local map[string]int64) {
	rng := newSplitMix(c0.Seed)
	report := func(c cell, res caseResult, fs []finding) {
		for _, f := range fs {
			note := ""
			if res.r.cfg.lifetime {
				note = fmt.Sprintf("; the caller has no deadline, so the bound applied here is not the configured threshold but the secondary worker's own (default) context deadline, %v after the call began", res.r.thr.Round(time.Millisecond))
			}
			rep.Violation("thr-"+c.CfgClass+"/"+f.Key, f.What+"; "+cfgDescribe(c)+note, map[string]any{"cell": c, "events": res.r.snapshot(), "mismatch": res.r.mm})
		}
		if violCases.Add(1) >= abortAfter {
			aborted.Store(true)
		}
	}
	for try := 0; try < 3; try++ {
		if aborted.Load() {
			return
		}
		c := c0
		c.Rep = try
		c.Seed = rng.Int63n(1 << 40)
		if c.CtxKind == "" {
			c.CtxKind = []string{"nodeadline", "deadline"}[rng.Intn(2)]
		}
		if c.POut == "error" {
			c.PErrAns = rng.Intn(3) == 0
		}
		caselog.Log(c)
		res := runCase(c)
		rep.Eval(1)
		local["cases"]++
		local["cfg_cases"]++
		local["cfg_cases:"+c.CfgClass+"/"+c.Place]++
		if res.r.has("return") {
			local["result:"+res.r.result]++
		}
		if len(res.findings) > 0 {
			report(c, res, res.findings)
			return
		}
		ci := res.r.cfg
		if ci.discard != "" {
			local["cfg_failover_not_judged(machine late)"]++
			rep.Extra("cfg_last_not_judged_reason", ci.discard)
			continue
		}
		if ci.late {
			// late with the machine on time: must reproduce at once
			local["cfg_late_candidates"]++
			c.Seed = rng.Int63n(1 << 40)
			res2 := runCase(c)
			rep.Eval(1)
			local["cases"]++
			local["cfg_cases"]++
			if len(res2.findings) > 0 {
				report(c, res2, res2.findings)
				return
			}
			if c2 := res2.r.cfg; c2.late {
				report(c, res2, []finding{{c2.lateWhat, c2.lateText + " (reproduced in two consecutive executions)"}})
				return
			}
			local["cfg_late_not_reproduced"]++
			continue
		}
		if ci.missed {
			local["cfg_placement_missed(machine late, retried)"]++
			continue
		}
		if !res.nontriv {
			local["cfg_cases_without_verdict"]++
			continue
		}
		rep.Nontrivial(res.fp)
		local["nontrivial_cases"]++
		local["cfg_judged:"+c.CfgClass+"/"+c.Place]++
		if ci.lifetime {
			local["cfg_standby_cases_bounded_by_the_workers_default_lifetime(caller without deadline, threshold beyond it)"]++
		}
		switch c.Place {
		case "outside":
			local["cfg_failover_on_time"]++
			rep.Max("cfg_max_failover_lateness_us(after the configured threshold, on-time cases)", int64(ci.lateness/time.Microsecond))
		case "caller-deadline":
			local["cases_with_context_end"]++
			local["context_end_realised"]++
		default:
			local["cfg_primary_placed_inside_configured_threshold"]++
		}
		sb := "standby=off"
		if c.Standby {
			sb = "standby=on"
		}
		cfgObsMu.Lock()
		k := c.CfgSpell + " " + sb
		cfgObs[k] = append(cfgObs[k], res.r.cfgObservation())
		cfgObsMu.Unlock()
		return
	}
	local["cfg_cells_without_verdict_after_3_tries"]++
}

// startCfgPhase runs every configured-threshold cell in its own goroutine (they
// sleep) and returns a channel that is closed when all are done.
func startCfgPhase() chan struct{} {
	done := make(chan struct{})
	rng := rand.New(rand.NewSource(rep.Seed*2654435761 + 20))
	cells := cfgCells(rng)
	// build every plugin first: through the real decoder and constructor
	built := map[string]bool{}
	var run []cell
	for _, c := range cells {
		if ok, seen := built[c.Cfg]; seen {
			if ok {
				run = append(run, c)
			}
			continue
		}
		ex, args, err := buildCfgPlugin(c.Cfg)
		if err == nil && (args == nil || args.AlwaysStandby != c.Standby || args.Primary != "c20_primary" || args.Secondary != "c20_secondary") {
			err = fmt.Errorf("decoded args %+v do not say what the text says", args)
		}
		if err != nil {
			built[c.Cfg] = false
			rep.Inconclusive("cannot build the fallback plugin from config %q: %v", c.Cfg, err)
			continue
		}
		built[c.Cfg] = true
		cfgMu.Lock()
		cfgPlugins[c.Cfg] = ex
		cfgMu.Unlock()
		rep.SetAdd("cfg_threshold_spellings_built_through_yaml+WeakDecode+Init", c.CfgSpell)
		run = append(run, c)
	}
	reps := rep.Pick(1, 2)
	go func() {
		defer close(done)
		var wg sync.WaitGroup
		var mu sync.Mutex
		total := map[string]int64{}
		for i := 0; i < reps; i++ {
			for _, c := range run {
				c.Seed += int64(i) * 104729
				wg.Add(1)
				go func(c cell) {
					defer wg.Done()
					local := map[string]int64{}
					runCfgCell(c, local)
					mu.Lock()
					for k, v := range local {
						total[k] += v
					}
					mu.Unlock()
				}(c)
			}
		}
		wg.Wait()
		for k, v := range total {
			rep.Count(k, v)
		}
		rep.Count("cfg_cells", int64(len(run)*reps))
		cfgObsMu.Lock()
		obs := map[string][]string{}
		for k, v := range cfgObs {
			sort.Strings(v)
			obs[k] = v
		}
		cfgObsMu.Unlock()
		rep.Extra("configured_threshold_observations", obs)
	}()
	return done
}

// cfgCoverageProblem: classes whose placement margin is seconds must have been judged.
func cfgCoverageProblem() string {
	for _, k := range []string{"around-5s/inside-answer", "above-5s/inside-answer", "above-5s/inside-fail", "above-5s/caller-deadline", "default/outside"} {
		if rep.Get("cfg_judged:"+k) == 0 {
			return "no configured-threshold case of class " + k + " could be judged"
		}
	}
	return ""
}
