package main

// Error-kind dimension of the cells: HOW a failing branch fails. The statement
// only distinguishes "answer" from "failed (error or no answer)"; which error a
// branch returns must not matter. Real branches (forward, the upstream
// transports, a nested fallback) fail with context errors of their OWN timeouts
// while the caller's context is alive, with wrapped / joined errors, with net
// timeouts, with sentinels. Every kind goes through the same model and trace
// rules as the plain scripted error: a primary that fails releases the secondary
// at once (long regime: threshold 5 s, progress bound 4 s), both failing returns
// ErrFailed promptly, an answering branch's answer is returned.

import (
	"context"
	"errors"
	"fmt"
	"io"
	"net"
	"os"
	"time"

	"github.com/IrineSistiana/mosdns/v5/plugin/executable/sequence/fallback"
)

// isAnything claims to be every context error through the errors.Is protocol.
type isAnything struct{}

func (isAnything) Error() string { return "c20: error with an Is method" }
func (isAnything) Is(t error) bool {
	return t == context.Canceled || t == context.DeadlineExceeded
}

// errKinds: name -> constructor (ctx is the worker's own context).
var errKindNames = []string{
	"ctx-deadline", "ctx-canceled", "wrapped-deadline", "wrapped-canceled", "joined-deadline",
	"own-subcontext-timeout", "own-subcontext-cancel-cause", "is-method",
	"net-timeout", "errfailed", "wrapped-errfailed", "eof", "joined-plain",
}

func makeErr(kind string, ctx context.Context) error {
	switch kind {
	case "ctx-deadline":
		return context.DeadlineExceeded
	case "ctx-canceled":
		return context.Canceled
	case "wrapped-deadline":
		return fmt.Errorf("c20 upstream 192.0.2.1:53: query timed out: %w", context.DeadlineExceeded)
	case "wrapped-canceled":
		return fmt.Errorf("c20 upstream: dial: %w", fmt.Errorf("operation was %w", context.Canceled))
	case "joined-deadline":
		return errors.Join(errScripted, fmt.Errorf("attempt 2: %w", context.DeadlineExceeded))
	case "own-subcontext-timeout":
		// what forward does: a per-upstream timeout context derived from the worker's context
		sub, cancel := context.WithTimeout(ctx, time.Nanosecond)
		defer cancel()
		<-sub.Done()
		return sub.Err()
	case "own-subcontext-cancel-cause":
		sub, cancel := context.WithCancelCause(ctx)
		cancel(fmt.Errorf("c20 upstream gave up: %w", context.Canceled))
		return context.Cause(sub)
	case "is-method":
		return isAnything{}
	case "net-timeout":
		return &net.OpError{Op: "dial", Net: "udp", Err: os.ErrDeadlineExceeded}
	case "errfailed":
		return fallback.ErrFailed // a nested fallback whose branches both failed
	case "wrapped-errfailed":
		return fmt.Errorf("c20 nested: %w", fallback.ErrFailed)
	case "eof":
		return io.ErrUnexpectedEOF
	case "joined-plain":
		return errors.Join(errScripted, io.EOF)
	}
	return errScripted
}

// errFamily: the class a kind belongs to (used in violation keys / counters).
func errFamily(kind string) string {
	if kind == "" {
		return ""
	}
	err := makeErr(kind, context.Background())
	var ne net.Error
	switch {
	case errors.Is(err, context.Canceled) || errors.Is(err, context.DeadlineExceeded):
		return "context"
	case errors.As(err, &ne) && ne.Timeout():
		return "net-timeout"
	}
	return "sentinel"
}

var familyText = map[string]string{
	"context":     "errors.Is(err, context.Canceled / context.DeadlineExceeded), as a branch's own dial / query timeout produces",
	"net-timeout": "a net.Error with Timeout() == true",
	"sentinel":    "a well-known sentinel (fallback.ErrFailed of a nested fallback, io errors), possibly wrapped or joined",
}

// pickErrKind: seed-determined; about one in five stays the plain scripted error.
func pickErrKind(rng *splitMix) string {
	i := rng.Intn(len(errKindNames) + 3)
	if i >= len(errKindNames) {
		return ""
	}
	return errKindNames[i]
}

// families of the failing branches of a cell ("" if all plain / none fails)
func (c cell) errFamilies() string {
	s := ""
	for _, x := range []struct{ out, kind string }{{c.POut, c.PErrKind}, {c.SOut, c.SErrKind}} {
		if x.out != "error" || x.kind == "" {
			continue
		}
		// one family per case: context > net-timeout > sentinel
		if f := errFamily(x.kind); s == "" || f == "context" || (f == "net-timeout" && s == "sentinel") {
			s = f
		}
	}
	return s
}
