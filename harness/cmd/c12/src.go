package main

// Phase "source": rule sources of every length class, line-end convention and
// reader behaviour. One case = one rule set written as a text source in which
// some lines are made long (around the 4 KiB / 8 KiB buffer sizes and the 64 KiB
// token limit, up to 200 KB) by a long comment, trailing comment, leading /
// trailing / inner blanks, a blank-only line, a long regular expression or a long
// literal rule; lines end in LF, CRLF or CR CR LF, the last line with or without
// a terminator; comments may contain bare CRs; whole files may use bare CR; or
// the source consists of thousands of short lines. The text goes through
// domain.LoadFromTextReader (readers delivering it whole, in chunks of every
// size, with empty reads, with data+EOF, or failing with a non-EOF error at any
// offset) and through the file options of domain_set, hosts, redirect and the
// qname matcher.
//
// Oracle: a source is either refused (allowed only if the reader failed or a
// line is >= 64 KiB) or, when reported as loaded, the set answers every probe
// like the naive reference over ALL rules of the source (LF line semantics, parsed
// by an own reference parser) - never a silently partial set.

import (
	"context"
	"errors"
	"fmt"
	"io"
	"math/rand"
	"os"
	"path/filepath"
	"regexp"
	"strconv"
	"strings"

	"github.com/IrineSistiana/mosdns/v5/coremain"
	"github.com/IrineSistiana/mosdns/v5/pkg/matcher/domain"
	"github.com/IrineSistiana/mosdns/v5/pkg/query_context"
	"github.com/IrineSistiana/mosdns/v5/plugin/data_provider/domain_set"
	hostsplugin "github.com/IrineSistiana/mosdns/v5/plugin/executable/hosts"
	"github.com/IrineSistiana/mosdns/v5/plugin/executable/redirect"
	"github.com/IrineSistiana/mosdns/v5/plugin/executable/sequence"
	"github.com/IrineSistiana/mosdns/v5/plugin/matcher/qname"
	"github.com/miekg/dns"
	"go.uber.org/zap"
)

// refusalLimit: a source with a line of at least this many bytes may be refused.
const refusalLimit = 64*1024 - 1

var (
	midClasses  = []int{4093, 4094, 4095, 4096, 4097, 4098, 4099, 8190, 8191, 8192, 8193, 8194, 12288, 16383, 16384, 16385, 32767, 32768, 32769, 50000, 65000, 65533}
	edgeClasses = []int{65534, 65535, 65536, 65537, 65538}
	longClasses = []int{65540, 66000, 70000, 80000, 98304, 131071, 131072, 131073, 150000, 200000}
)

type planLine struct {
	Kind    string `json:"kind"` // rule / comment / blank / decoy
	Rule    int    `json:"rule"` // index into the rule set (-1: none)
	lead    string
	mid     string
	trail   string // trailing blanks or "#..." comment
	text    string // comment / blank lines: the whole content
	Pad     string `json:"pad,omitempty"` // how the line is made long
	PadTo   int    `json:"pad_to,omitempty"`
	Term    string `json:"terminator"`
	padByte byte
}

type srcPlan struct {
	Shape string     `json:"shape"`
	Lines []planLine `json:"-"`
	Long  []string   `json:"long_lines"`
}

func blanks(rng *rand.Rand) string { return []string{"", "", " ", "\t", "  ", " \t "}[rng.Intn(6)] }

func fillerText(rng *rand.Rand, n int) string {
	if n <= 0 {
		return ""
	}
	words := []string{"full:a.com ", "domain:com ", "keyword:a ", "regexp:. ", "x", "note, ", "a.b.c "}
	var b strings.Builder
	for b.Len() < n {
		b.WriteString(words[rng.Intn(len(words))])
	}
	return b.String()[:n]
}

// genPlan lays out the lines of a source for rs; it may append long rules to rs.
func genPlan(rng *rand.Rand, rs *ruleSet, st *stats) *srcPlan {
	p := &srcPlan{}
	shapeRoll := rng.Intn(100)
	switch {
	case shapeRoll < 38:
		p.Shape = "one-line-over-64KiB"
	case shapeRoll < 50:
		p.Shape = "line-at-64KiB-edge"
	case shapeRoll < 68:
		p.Shape = "lines-around-4-32KiB"
	case shapeRoll < 76:
		p.Shape = "two-long-lines"
	case shapeRoll < 86:
		p.Shape = "thousands-of-short-lines"
	case shapeRoll < 95:
		p.Shape = "cr-oddities"
	default:
		p.Shape = "bare-cr-file"
	}
	term := func() string {
		x := rng.Intn(20)
		if p.Shape == "cr-oddities" {
			x = rng.Intn(8)
		}
		switch {
		case x < 1:
			return "\r\r\n"
		case x < 5:
			return "\r\n"
		}
		return "\n"
	}
	noise := func() (planLine, bool) {
		switch rng.Intn(9) {
		case 0:
			return planLine{Kind: "blank", Rule: -1, text: blanks(rng)}, true
		case 1:
			return planLine{Kind: "comment", Rule: -1, text: blanks(rng) + "# a comment: full:a.com"}, true
		case 2:
			d := allTypes[rng.Intn(4)] + ":" + rs.Pool[rng.Intn(len(rs.Pool))]
			return planLine{Kind: "decoy", Rule: -1, text: blanks(rng) + "#" + blanks(rng) + d + " 9999"}, true
		case 3:
			if p.Shape == "cr-oddities" {
				// a bare CR inside a comment does not end the comment
				d := allTypes[rng.Intn(2)] + ":" + rs.Pool[rng.Intn(len(rs.Pool))]
				st.add("src_comments_containing_bare_CR_and_a_decoy_rule", 1)
				return planLine{Kind: "decoy", Rule: -1, text: "# note\r" + d + " 9999"}, true
			}
		case 4:
			if p.Shape == "cr-oddities" {
				return planLine{Kind: "blank", Rule: -1, text: []string{"\r", "\r\r", " \r\t"}[rng.Intn(3)]}, true
			}
		}
		return planLine{}, false
	}
	for i := range rs.Rules {
		if l, ok := noise(); ok {
			p.Lines = append(p.Lines, l)
		}
		l := planLine{Kind: "rule", Rule: i, lead: blanks(rng), mid: []string{" ", "\t", "  ", " \t"}[rng.Intn(4)], trail: blanks(rng)}
		switch rng.Intn(6) {
		case 0:
			l.trail = " # " + []string{"note", "full:com 1", "domain:a"}[rng.Intn(3)]
		case 1:
			l.trail = "#x"
		}
		if p.Shape == "cr-oddities" && rng.Intn(4) == 0 {
			l.lead = "\r" + l.lead
		}
		p.Lines = append(p.Lines, l)
	}
	if l, ok := noise(); ok {
		p.Lines = append(p.Lines, l)
	}

	insert := func(at int, l planLine) {
		p.Lines = append(p.Lines, planLine{})
		copy(p.Lines[at+1:], p.Lines[at:])
		p.Lines[at] = l
	}
	position := func() int { // first, last or anywhere
		switch rng.Intn(4) {
		case 0:
			return 0
		case 1:
			return len(p.Lines)
		}
		return rng.Intn(len(p.Lines) + 1)
	}
	ruleLine := func() int {
		var idx []int
		for i, l := range p.Lines {
			if l.Kind == "rule" && l.Pad == "" {
				idx = append(idx, i)
			}
		}
		if len(idx) == 0 {
			return -1
		}
		return idx[rng.Intn(len(idx))]
	}
	// makeLong makes one line of about n bytes.
	makeLong := func(n int, allowBigRule bool) {
		kinds := []string{"comment", "comment", "trailing-comment", "trailing-comment", "trailing-blanks", "leading-blanks", "inner-blanks", "blank-only", "long-regexp", "long-literal"}
		k := kinds[rng.Intn(len(kinds))]
		if k == "long-regexp" && (!allowBigRule || n > 70000) {
			k = "comment"
		}
		ri := -1
		switch k {
		case "trailing-comment", "trailing-blanks", "leading-blanks", "inner-blanks":
			if ri = ruleLine(); ri < 0 {
				k = "comment"
			}
		}
		st.add("src_long_line_kind:"+k, 1)
		p.Long = append(p.Long, fmt.Sprintf("%s~%d", k, n))
		switch k {
		case "comment":
			insert(position(), planLine{Kind: "comment", Rule: -1, text: blanks(rng) + "#", Pad: k, PadTo: n})
		case "blank-only":
			insert(position(), planLine{Kind: "blank", Rule: -1, Pad: k, PadTo: n, padByte: " \t"[rng.Intn(2)]})
		case "trailing-comment", "trailing-blanks", "leading-blanks", "inner-blanks":
			i := ri
			p.Lines[i].Pad, p.Lines[i].PadTo, p.Lines[i].padByte = k, n, " \t"[rng.Intn(2)]
			if k == "trailing-comment" && !strings.Contains(p.Lines[i].trail, "#") {
				p.Lines[i].trail = " #"
			}
		case "long-regexp":
			// ^(?:<a real name>|qqqq...)$ : still describes the real name
			real := rs.Pool[rng.Intn(len(rs.Pool))]
			if rng.Intn(2) == 0 {
				real = pickLabel(rng) + "." + real
			}
			fill := strings.Repeat("q", max(1, n-len(real)-24))
			r := rule{Typ: tRegexp, Val: len(rs.Rules) + 1, Ex: real}
			if rng.Intn(2) == 0 {
				r.Pat = "^(?:" + regexp.QuoteMeta(real) + "|" + fill + ")$"
			} else {
				r.Pat = "^(?:" + fill + "|" + regexp.QuoteMeta(real) + ")$"
			}
			rs.Rules = append(rs.Rules, r)
			insert(position(), planLine{Kind: "rule", Rule: len(rs.Rules) - 1, mid: " ", Pad: "long-rule"})
		case "long-literal":
			r := rule{Typ: []string{tFull, tKeyword}[rng.Intn(2)], Val: len(rs.Rules) + 1}
			r.Pat = strings.Repeat("x", max(1, n-20))
			rs.Rules = append(rs.Rules, r)
			insert(position(), planLine{Kind: "rule", Rule: len(rs.Rules) - 1, mid: " ", Pad: "long-rule"})
		}
	}
	pick := func(c []int) int { return c[rng.Intn(len(c))] }
	switch p.Shape {
	case "one-line-over-64KiB":
		makeLong(pick(longClasses), true)
	case "line-at-64KiB-edge":
		makeLong(pick(edgeClasses), true)
	case "lines-around-4-32KiB":
		for i, n := 0, 1+rng.Intn(3); i < n; i++ {
			makeLong(pick(midClasses), i == 0)
		}
	case "two-long-lines":
		makeLong(pick(midClasses), false)
		makeLong(pick(append(append([]int{}, edgeClasses...), longClasses...)), false)
	case "thousands-of-short-lines":
		n := 2500 + rng.Intn(3000)
		merged := make([]planLine, 0, n+len(p.Lines))
		rest := p.Lines
		for i := 0; i < n || len(rest) > 0; {
			if len(rest) > 0 && (i >= n || rng.Intn(n+len(p.Lines)) < len(p.Lines)) {
				merged = append(merged, rest[0])
				rest = rest[1:]
				continue
			}
			i++
			var l planLine
			switch rng.Intn(3) {
			case 0:
				l = planLine{Kind: "blank", Rule: -1, text: blanks(rng)}
			case 1:
				l = planLine{Kind: "comment", Rule: -1, text: "# " + fillerText(rng, 5+rng.Intn(60))}
			default:
				l = planLine{Kind: "decoy", Rule: -1, text: "#" + allTypes[rng.Intn(4)] + ":" + randName(rng, 1, 3) + " 9999"}
			}
			merged = append(merged, l)
		}
		p.Lines = merged
	}
	for i := range p.Lines {
		p.Lines[i].Term = term()
		if p.Shape == "bare-cr-file" {
			p.Lines[i].Term = "\r"
		}
	}
	if rng.Intn(2) == 0 {
		p.Lines[len(p.Lines)-1].Term = ""
	}
	return p
}

// render writes the plan for a route with default type def and the given value column.
func (p *srcPlan) render(rng *rand.Rand, rs *ruleSet, def string, value func(rule) string) string {
	var b strings.Builder
	for _, l := range p.Lines {
		var s string
		if l.Kind == "rule" {
			r := rs.Rules[l.Rule]
			pat, val := r.text(def), value(r)
			mid := ""
			if val != "" {
				mid = l.mid
			}
			pad := func(base int) string { return strings.Repeat(string(l.padByte), max(0, l.PadTo-base)) }
			base := len(l.lead) + len(pat) + len(mid) + len(val) + len(l.trail)
			switch l.Pad {
			case "trailing-blanks":
				s = l.lead + pat + mid + val + l.trail + pad(base)
				if strings.Contains(l.trail, "#") {
					s = l.lead + pat + mid + val + pad(base) + l.trail
				}
			case "leading-blanks":
				s = l.lead + pad(base) + pat + mid + val + l.trail
			case "inner-blanks":
				if val == "" {
					s = l.lead + pat + pad(base) + l.trail
				} else {
					s = l.lead + pat + mid + pad(base) + val + l.trail
				}
			case "trailing-comment":
				s = l.lead + pat + mid + val + l.trail + fillerText(rng, l.PadTo-base)
			default:
				s = l.lead + pat + mid + val + l.trail
			}
		} else {
			s = l.text
			switch l.Pad {
			case "comment":
				s += fillerText(rng, l.PadTo-len(s))
			case "blank-only":
				s += strings.Repeat(string(l.padByte), max(0, l.PadTo-len(s)))
			}
		}
		b.WriteString(s)
		b.WriteString(l.Term)
	}
	return b.String()
}

// ---------------------------------------------------------------- reference parser (LF line semantics)

func isBlank(c byte) bool { return c == ' ' || c == '\t' || c == '\r' || c == '\v' || c == '\f' }

func refFields(s string) []string {
	var f []string
	i := 0
	for i < len(s) {
		for i < len(s) && isBlank(s[i]) {
			i++
		}
		j := i
		for j < len(s) && !isBlank(s[j]) {
			j++
		}
		if j > i {
			f = append(f, s[i:j])
		}
		i = j
	}
	return f
}

type parsedLine struct {
	typ, pat string
	values   []string
}

// refParse returns the rules of a source: one per LF-terminated line, text after
// '#' dropped, surrounding blanks dropped, blank lines skipped. maxLine = longest
// line in bytes (without its LF). bad != "" : some line is not a rule of this format.
func refParse(text, def string, wantValues int) (rules []parsedLine, maxLine int, bad string) {
	for len(text) > 0 {
		line := text
		if i := strings.IndexByte(text, '\n'); i >= 0 {
			line, text = text[:i], text[i+1:]
		} else {
			text = ""
		}
		maxLine = max(maxLine, len(line))
		if i := strings.IndexByte(line, '#'); i >= 0 {
			line = line[:i]
		}
		f := refFields(line)
		if len(f) == 0 {
			continue
		}
		if wantValues >= 0 && len(f) != 1+wantValues {
			bad = fmt.Sprintf("a line with %d sections", len(f))
			continue
		}
		pl := parsedLine{typ: def, pat: f[0], values: f[1:]}
		if i := strings.IndexByte(f[0], ':'); i >= 0 {
			pl.typ, pl.pat = f[0][:i], f[0][i+1:]
		}
		if typeBit(pl.typ) == 0 {
			bad = "a rule without a usable type"
			continue
		}
		rules = append(rules, pl)
	}
	return
}

// ---------------------------------------------------------------- readers

type readerSpec struct {
	Kind      string `json:"kind"` // whole / chunked / failing
	ChunkMax  int    `json:"chunk_max,omitempty"`
	ZeroReads bool   `json:"empty_reads,omitempty"`
	EOFData   bool   `json:"eof_together_with_last_data,omitempty"`
	FailAt    int    `json:"fail_at_offset"`
	FailWhere string `json:"fail_where,omitempty"`
	FailData  bool   `json:"error_together_with_data,omitempty"`
	FailErr   string `json:"error,omitempty"`
	Seed      int64  `json:"seed"`
}

type scriptReader struct {
	spec  readerSpec
	data  string
	pos   int
	rng   *rand.Rand
	calls int
	zero  bool
	err   error
}

var readerErrs = map[string]error{"unexpected EOF": io.ErrUnexpectedEOF, "i/o error": errors.New("i/o error"), "closed pipe": io.ErrClosedPipe}

func newScriptReader(spec readerSpec, data string) *scriptReader {
	return &scriptReader{spec: spec, data: data, rng: rand.New(rand.NewSource(spec.Seed)), err: readerErrs[spec.FailErr]}
}

func (r *scriptReader) Read(p []byte) (int, error) {
	r.calls++
	end := len(r.data)
	failing := r.spec.Kind == "failing"
	if failing {
		end = min(end, r.spec.FailAt)
	}
	if r.pos >= end {
		if failing {
			return 0, r.err
		}
		return 0, io.EOF
	}
	if len(p) == 0 {
		return 0, nil
	}
	if r.spec.ZeroReads && !r.zero && r.rng.Intn(5) == 0 {
		r.zero = true
		return 0, nil
	}
	r.zero = false
	n := min(len(p), end-r.pos)
	if r.spec.ChunkMax > 0 {
		n = min(n, 1+r.rng.Intn(r.spec.ChunkMax))
	}
	copy(p, r.data[r.pos:r.pos+n])
	r.pos += n
	if r.pos >= end {
		if failing && r.spec.FailData {
			return n, r.err
		}
		if !failing && r.spec.EOFData {
			return n, io.EOF
		}
	}
	return n, nil
}

func genReader(rng *rand.Rand, kind, text string) readerSpec {
	s := readerSpec{Kind: kind, Seed: rng.Int63(), FailAt: -1}
	if kind == "whole" {
		return s
	}
	s.ChunkMax = []int{0, 1, 2, 7, 512, 4095, 4096, 4097, 65535, 65536, 100000}[rng.Intn(11)]
	if len(text) > 20000 && s.ChunkMax > 0 && s.ChunkMax < 7 {
		s.ChunkMax = 7 // keep very long sources affordable
	}
	s.ZeroReads = rng.Intn(4) == 0
	s.EOFData = rng.Intn(3) == 0
	if kind != "failing" {
		return s
	}
	s.FailData = rng.Intn(2) == 0
	s.FailErr = []string{"unexpected EOF", "i/o error", "closed pipe"}[rng.Intn(3)]
	// offsets of line starts
	var starts []int
	for i := 0; i < len(text); i++ {
		if i == 0 || text[i-1] == '\n' {
			starts = append(starts, i)
		}
	}
	switch x := rng.Intn(10); {
	case x < 4 && len(starts) > 1:
		s.FailAt, s.FailWhere = starts[1+rng.Intn(len(starts)-1)], "at a line start (everything before it was delivered with its terminator)"
	case x < 5:
		s.FailAt, s.FailWhere = len(text), "after the last byte (instead of EOF)"
	case x < 6:
		s.FailAt, s.FailWhere = 0, "before the first byte"
	default:
		s.FailAt, s.FailWhere = rng.Intn(len(text)+1), "at a random offset"
	}
	return s
}

// ---------------------------------------------------------------- the case

type srcCase struct {
	Phase   string      `json:"phase"`
	Seed    int64       `json:"case_seed"`
	Plan    *srcPlan    `json:"plan"`
	Route   string      `json:"route"`
	Reader  *readerSpec `json:"reader,omitempty"`
	Default string      `json:"default_type"`
	Rules   []string    `json:"rules_of_the_source"`
	Len     int         `json:"source_bytes"`
	MaxLine int         `json:"longest_line_bytes"`
	Lines   int         `json:"source_lines"`
	Head    string      `json:"source_head(512 bytes)"`
}

type srcRun struct {
	seed  int64
	rng   *rand.Rand
	rs    *ruleSet
	plan  *srcPlan
	ref   *refSet
	names []string
	dir   string
	st    *stats
	out   []finding
	seen  map[string]bool
}

func (sr *srcRun) describeCase(route, def, text string, maxLine int, rd *readerSpec) *srcCase {
	c := &srcCase{Phase: "source", Seed: sr.seed, Plan: sr.plan, Route: route, Reader: rd, Default: def, Len: len(text), MaxLine: maxLine, Lines: strings.Count(text, "\n")}
	for _, r := range sr.rs.Rules {
		t := r.Typ + ":" + r.Pat
		if len(t) > 120 {
			t = t[:60] + fmt.Sprintf("...(%d bytes)...", len(t)) + t[len(t)-40:]
		}
		c.Rules = append(c.Rules, t+" => "+strconv.Itoa(r.Val))
	}
	c.Head = text[:min(len(text), 512)]
	return c
}

func (sr *srcRun) add(key, what string, c *srcCase, more map[string]any) {
	sr.st.add("mismatches", 1)
	if sr.seen[key] {
		return
	}
	sr.seen[key] = true
	m := map[string]any{"phase": "source", "case_seed": sr.seed, "target": c.Route, "case": c}
	for k, v := range more {
		m[k] = v
	}
	sr.out = append(sr.out, finding{Key: key, What: what, Case: m})
}

// judge applies the oracle to one load attempt.
//
//	wantValues/def: format of the route; planOK: the plan is authoritative for the expected rules
func (sr *srcRun) judge(route, def, text string, wantValues int, rd *readerSpec, err error, probe func(string, int) (int, bool)) {
	parsed, maxLine, bad := refParse(text, def, wantValues)
	c := sr.describeCase(route, def, text, maxLine, rd)
	st := sr.st
	readerFails := rd != nil && rd.Kind == "failing"
	bareCR := sr.plan.Shape == "bare-cr-file"
	if !bareCR {
		// self-check of the generator against the reference parser
		var want []string
		for _, l := range sr.plan.Lines {
			if l.Kind == "rule" {
				r := sr.rs.Rules[l.Rule]
				want = append(want, r.Typ+":"+r.Pat)
			}
		}
		ok := bad == "" && len(parsed) == len(want)
		for i := 0; ok && i < len(want); i++ {
			ok = parsed[i].typ+":"+parsed[i].pat == want[i]
		}
		if !ok {
			panic(harnessBug{fmt.Sprintf("source phase, case seed %d route %s: the generated source does not contain the intended rules (%s; %d vs %d rules)", sr.seed, route, bad, len(parsed), len(want))})
		}
	}
	long := maxLine >= refusalLimit
	if st.wantSample {
		outcome := "reported as loaded"
		if err != nil {
			outcome = "refused: " + err.Error()
		}
		smp, _ := st.sample.([]any)
		st.sample = append(smp, map[string]any{"attempt": c, "outcome": outcome})
	}
	st.add("src_load_attempts", 1)
	st.add("src_load_attempts:"+route, 1)
	if long {
		st.add("src_attempts_with_a_line_of_64KiB_or_more", 1)
	}
	fpOutcome := "loaded"
	defer func() {
		st.fp["src|"+strconv.FormatInt(sr.seed, 36)+"|"+route+"|"+fpOutcome] = struct{}{}
	}()
	if err != nil {
		fpOutcome = "refused"
		st.add("src_sources_refused", 1)
		switch {
		case readerFails:
			st.add("src_refused_after_reader_error", 1)
		case long:
			st.add("src_refused_with_a_line_of_64KiB_or_more", 1)
		case bareCR || bad != "":
			st.add("src_refused_bare_CR_file", 1)
		default:
			sr.add(route+"-load-error", fmt.Sprintf("%s: a valid source (%d bytes, longest line %d bytes, shape %s, long lines %v) read without error was refused: %v", route, len(text), maxLine, sr.plan.Shape, sr.plan.Long, err), c, map[string]any{"error": err.Error()})
		}
		return
	}
	st.add("src_sources_reported_as_loaded", 1)
	if readerFails {
		st.add("src_loaded_although_reader_failed", 1)
	}
	if long {
		st.add("src_loaded_with_a_line_of_64KiB_or_more", 1)
	}
	ref := sr.ref
	if bareCR {
		if bad != "" {
			st.add("src_bare_CR_file_accepted(no verdict: not a rule source under LF semantics)", 1)
			return
		}
		// expected = what the reference parser found (value column only for the int format)
		prs := &ruleSet{Seed: sr.seed, Pool: sr.rs.Pool}
		for i, pl := range parsed {
			r := rule{Typ: pl.typ, Pat: pl.pat, Val: i + 1}
			if len(pl.values) == 1 {
				if v, e := strconv.Atoi(pl.values[0]); e == nil {
					r.Val = v
				}
			}
			if r.Typ == tRegexp {
				if _, e := regexp.Compile(r.Pat); e != nil {
					return
				}
			}
			prs.Rules = append(prs.Rules, r)
		}
		ref = newRefSet(prs)
	}
	var evals int64
	for i, name := range sr.names {
		exp := ref.eval(name, mAll)
		v, got := probe(name, i)
		evals++
		if bareCR && wantValues != 1 && v >= 0 {
			v = -1
		}
		if mismatchKey(ref, route, name, exp, v, got) == "" {
			continue
		}
		how := "read without error"
		if rd != nil {
			how = "reader: " + rd.Kind
			if readerFails {
				how = fmt.Sprintf("reader failed with %q %s (offset %d of %d)", rd.FailErr, rd.FailWhere, rd.FailAt, len(text))
			}
		}
		ctx := fmt.Sprintf("[source of %d bytes / %d lines, longest line %d bytes, shape %s, long lines %v; %s; the loader reported SUCCESS]", len(text), c.Lines+1, maxLine, sr.plan.Shape, sr.plan.Long, how)
		more := map[string]any{"name": name, "normalised_name": refNorm(name), "expected": exp, "got_match": got, "got_value": v}
		switch {
		case exp.Match && !got:
			sr.add(route+"-partial-set", fmt.Sprintf("%s: name %q is described by a %s rule of the source (values %v) but the set loaded from it does not match it %s", route, name, exp.Winner, exp.Allowed, ctx), c, more)
		case !exp.Match && got:
			sr.add(route+"-false-positive", fmt.Sprintf("%s: name %q is described by no rule of the source but the set loaded from it matches it (value %d) %s", route, name, v, ctx), c, more)
		default:
			sr.add(route+"-wrong-value", fmt.Sprintf("%s: name %q must get the value of the %s match (one of %v) but got %d (%s) %s", route, name, exp.Winner, exp.Allowed, v, gotType(ref, name, v), ctx), c, more)
		}
	}
	st.add("evaluations", evals)
	st.add("evaluations:"+route, evals)
}

func parseIntValue(s string) (string, int, error) {
	f := strings.Fields(s)
	if len(f) != 2 {
		return "", 0, fmt.Errorf("want 2 sections, got %d", len(f))
	}
	v, err := strconv.Atoi(f[1])
	return f[0], v, err
}

func runSrcCase(seed int64, dir string, st *stats) []finding {
	rng := rand.New(rand.NewSource(seed ^ 0x50c))
	rs := genRuleSet(seed)
	if len(rs.Rules) > 10 {
		rs.Rules = rs.Rules[:10]
	}
	plan := genPlan(rng, rs, st)
	sr := &srcRun{seed: seed, rng: rng, rs: rs, plan: plan, dir: dir, st: st, seen: map[string]bool{}}
	sr.ref = newRefSet(rs)
	sr.names = probeNames(rng, rs, 60, nil)
	st.add("src_cases", 1)
	st.add("src_shape:"+plan.Shape, 1)
	bareCR := plan.Shape == "bare-cr-file"

	intVal := func(r rule) string { return strconv.Itoa(r.Val) }
	noVal := func(rule) string { return "" }
	g := &cfgGen{rng: rng}

	// 1. LoadFromTextReader with values, three reader behaviours
	{
		text := plan.render(rng, rs, rs.Default, intVal)
		for _, kind := range []string{"whole", "chunked", "failing"} {
			spec := genReader(rng, kind, text)
			m := domain.NewMixMatcher[int]()
			if rs.Default != "" {
				m.SetDefaultMatcher(rs.Default)
			}
			st.add("src_reader:"+kind, 1)
			err := domain.LoadFromTextReader[int](m, newScriptReader(spec, text), parseIntValue)
			sr.judge("src-loader", rs.Default, text, 1, &spec, err, func(n string, _ int) (int, bool) { return m.Match(n) })
		}
	}
	// 2. without values (nil parse function)
	{
		text := plan.render(rng, rs, rs.Default, noVal)
		spec := genReader(rng, []string{"whole", "chunked", "failing"}[rng.Intn(3)], text)
		m := domain.NewMixMatcher[struct{}]()
		if rs.Default != "" {
			m.SetDefaultMatcher(rs.Default)
		}
		st.add("src_reader:"+spec.Kind, 1)
		err := domain.LoadFromTextReader[struct{}](m, newScriptReader(spec, text), nil)
		sr.judge("src-loader-novalue", rs.Default, text, 0, &spec, err, func(n string, _ int) (int, bool) { _, ok := m.Match(n); return -1, ok })
	}
	// 3. two of the file options of the plugins
	file := func(name, text string) string {
		p := filepath.Join(dir, name)
		if err := os.WriteFile(p, []byte(text), 0o644); err != nil {
			panic(err)
		}
		return p
	}
	routes := rng.Perm(4)[:2]
	for _, x := range routes {
		switch {
		case x == 0:
			text := plan.render(rng, rs, tDomain, noVal)
			mos := coremain.NewTestMosdnsWithPlugins(map[string]any{})
			ds, err := domain_set.NewDomainSet(coremain.NewBP("ds", mos), &domain_set.Args{Files: []string{file("src-ds.txt", text)}})
			var probe func(string, int) (int, bool)
			if err == nil {
				m := ds.GetDomainMatcher()
				probe = func(n string, _ int) (int, bool) { _, ok := m.Match(n); return -1, ok }
			}
			sr.judge("src-domainset-file", tDomain, text, 0, nil, err, probe)
		case x == 1 && !bareCR:
			text := plan.render(rng, rs, tFull, g.ipText)
			hp, err := hostsplugin.NewHosts(&hostsplugin.Args{Files: []string{file("src-hosts.txt", text)}})
			sr.judge("src-hosts-file", tFull, text, -1, nil, err, func(n string, i int) (int, bool) { return probeHosts(hp, n, i) })
		case x == 2 && !bareCR:
			text := plan.render(rng, rs, tFull, redirectValue)
			rp, err := redirect.NewRedirect(&redirect.Args{Files: []string{file("src-redirect.txt", text)}})
			sr.judge("src-redirect-file", tFull, text, 1, nil, err, func(n string, _ int) (int, bool) { return probeRedirect(rp, n) })
		default:
			text := plan.render(rng, rs, tDomain, noVal)
			mos := coremain.NewTestMosdnsWithPlugins(map[string]any{})
			qm, err := qname.QuickSetup(sequence.NewBQ(mos, zap.NewNop()), "&"+file("src-qname.txt", text))
			sr.judge("src-qname-file", tDomain, text, 0, nil, err, func(n string, _ int) (int, bool) {
				q := new(dns.Msg)
				q.Question = []dns.Question{{Name: n, Qtype: dns.TypeA, Qclass: dns.ClassINET}}
				ok, e := qm.Match(context.Background(), query_context.NewContext(q))
				if e != nil {
					return -2, true
				}
				return -1, ok
			})
		}
	}
	return sr.out
}
