package main

// Phase "config": rule sets reach the matchers the way an operator's do - as a
// configuration document read by coremain (viper + the plugin args decoder),
// not through the Go API. One case = one document with several domain_set
// plugins (exps / files / sets), a hosts plugin (entries / files), a redirect
// plugin (rules / files) and a sequence whose rule is a "qname ..." matcher
// (expressions, $set, &file). Every list option is written in a random spelling:
// block list, flow list or - one element - a bare scalar, each scalar plain,
// single quoted, double quoted (with escapes) or as a literal block; the document
// is YAML, JSON or the already decoded map. Rules come from the usual generator
// plus regular expressions that contain every separator-like character a config
// layer might be tempted to interpret: commas ({m,n}, [a,b]), colons, spaces,
// '#', braces, brackets, quotes, backslashes, '&', '*', '!', '|', '>', '%', '@'.
// Tags and file names contain such characters too. After coremain.NewMosdns
// built the document every plugin is probed and compared with the naive
// reference over exactly the rules that were written down for it.

import (
	"context"
	"encoding/json"
	"fmt"
	"math/rand"
	"net/netip"
	"os"
	"path/filepath"
	"reflect"
	"regexp"
	"sort"
	"strconv"
	"strings"

	"github.com/IrineSistiana/mosdns/v5/coremain"
	"github.com/IrineSistiana/mosdns/v5/mlog"
	"github.com/IrineSistiana/mosdns/v5/pkg/query_context"
	"github.com/IrineSistiana/mosdns/v5/plugin/data_provider"
	hostsplugin "github.com/IrineSistiana/mosdns/v5/plugin/executable/hosts"
	"github.com/IrineSistiana/mosdns/v5/plugin/executable/redirect"
	"github.com/IrineSistiana/mosdns/v5/plugin/executable/sequence"
	_ "github.com/IrineSistiana/mosdns/v5/plugin/matcher/qname"
	"github.com/miekg/dns"
	"gopkg.in/yaml.v3"
)

// ---------------------------------------------------------------- rules with separator-like characters

// sepAtoms match the empty string at least; the names probed never contain the
// characters, so the reference decides on the rest of the expression.
var sepAtoms = []string{
	`,?`, `,*`, `[,;]*`, `(?:,|;)?`, `,{0,2}`, `(?:a,b)?`,
	`:?`, `[:]*`, `(?::|=)?`,
	`#?`, `#*`, `[#]?`, `(?:#x)?`,
	` ?`, ` *`, `[ ]?`, `(?:, )?`, `(?: #)?`, `\t?`,
	`\{?`, `\}?`, `[{}]*`, `\[?`, `\]?`, `[\[\]]?`,
	`"?`, `'?`, `['"]*`, `\\?`, "`?",
	`&?`, `\*?`, `!?`, `\|?`, `>?`, `%?`, `@?`, `~?`, `=?`, `\??`, `<?`, `\$?`,
}

type sepFlags struct{ space, hash bool }

func flagsOf(s string) sepFlags {
	return sepFlags{space: strings.ContainsAny(s, " \t"), hash: strings.Contains(s, "#")}
}

// genRegexpSep: like genRegexp, with counted repetitions, classes that list
// separator characters and optional separator atoms.
func genRegexpSep(rng *rand.Rand, pool []string) (expr, example string) {
	for {
		var e, x strings.Builder
		if rng.Intn(12) == 0 {
			e.WriteString("(?i)")
		}
		if rng.Intn(3) != 0 {
			e.WriteString("^")
		} else if rng.Intn(2) == 0 {
			x.WriteString(pickLabel(rng) + ".")
		}
		sep := func() {
			if rng.Intn(3) == 0 {
				e.WriteString(sepAtoms[rng.Intn(len(sepAtoms))])
			}
		}
		n := 1 + rng.Intn(3)
		for i := 0; i < n; i++ {
			sep()
			var ae, ax string
			single := true
			switch rng.Intn(12) {
			case 0, 1:
				l := pickLabel(rng)
				ae, ax, single = regexp.QuoteMeta(l), l, false
			case 2:
				p := pool[rng.Intn(len(pool))]
				ae, ax, single = regexp.QuoteMeta(p), p, false
			case 3:
				ae, ax = `\.`, "."
			case 4:
				ae, ax = "[a,b]", string("ab"[rng.Intn(2)])
			case 5:
				ae, ax = "[^.,# :]", string("abc-"[rng.Intn(4)])
			case 6:
				ae, ax = "[a-c,;{}]", string("abc"[rng.Intn(3)])
			case 7:
				ae, ax = "(?:a|b|,)", string("ab"[rng.Intn(2)])
			case 8:
				ae, ax = "[[:alpha:]]", string("abc"[rng.Intn(3)])
			case 9:
				ae, ax = "[ab#]", string("ab"[rng.Intn(2)])
			case 10:
				ae, ax = "[a b]", string("ab"[rng.Intn(2)])
			default:
				ae, ax = "(a|ab|com)", []string{"a", "ab", "com"}[rng.Intn(3)]
			}
			if single {
				switch rng.Intn(8) {
				case 0:
					lo, hi := 1+rng.Intn(2), 2+rng.Intn(3)
					ae += fmt.Sprintf("{%d,%d}", lo, hi)
					ax = strings.Repeat(ax, lo+rng.Intn(hi-lo+1))
				case 1:
					hi := 1 + rng.Intn(3)
					ae += fmt.Sprintf("{0,%d}", hi)
					ax = strings.Repeat(ax, rng.Intn(hi+1))
				case 2:
					lo := 1 + rng.Intn(2)
					ae += fmt.Sprintf("{%d,}", lo)
					ax = strings.Repeat(ax, lo+rng.Intn(2))
				case 3:
					k := 1 + rng.Intn(3)
					ae += fmt.Sprintf("{%d}", k)
					ax = strings.Repeat(ax, k)
				case 4:
					ae += "+"
				case 5:
					ae += "?"
				}
			}
			e.WriteString(ae)
			x.WriteString(ax)
		}
		sep()
		switch rng.Intn(4) {
		case 0, 1, 2:
			e.WriteString("$")
		default:
			x.WriteString("." + pickLabel(rng))
		}
		expr, example = e.String(), x.String()
		if _, err := regexp.Compile(expr); err != nil {
			continue
		}
		return expr, example
	}
}

func genCfgRuleSet(seed int64) *ruleSet {
	rng := rand.New(rand.NewSource(seed))
	rs := &ruleSet{Seed: seed}
	for i, np := 0, 1+rng.Intn(3); i < np; i++ {
		rs.Pool = append(rs.Pool, randName(rng, 1, 3))
	}
	w := typeWeights{2, 3, 5, 1}
	for i, n := 0, 6+rng.Intn(10); i < n; i++ {
		r := rule{Val: i + 1, Bare: rng.Intn(10) < 5}
		t := w.pick(rng)
		if t == tRegexp && rng.Intn(4) != 0 {
			r.Typ = tRegexp
			r.Pat, r.Ex = genRegexpSep(rng, rs.Pool)
		} else {
			fillRule(rng, rs, &r, t)
		}
		rs.Rules = append(rs.Rules, r)
	}
	return rs
}

// ---------------------------------------------------------------- the document

type cfgOption struct {
	Name     string   `json:"option"`
	Items    []string `json:"items"`
	Spelling string   `json:"spelling"` // "scalar/<style>", "block-list", "flow-list", "omitted", "null"
}

type cfgFile struct {
	Path  string `json:"path"`
	Text  string `json:"text"`
	rules []int
}

type cfgPlugin struct {
	Tag     string      `json:"tag"`
	Type    string      `json:"type"`
	Options []cfgOption `json:"options"`
	Files   []cfgFile   `json:"files,omitempty"`

	rules []int          // own rules (options + files)
	where map[int]string // rule index -> "option (spelling)" it was written in
	inc   []int          // included domain_set plugins
}

type cfgCase struct {
	Phase    string      `json:"phase"`
	Seed     int64       `json:"case_seed"`
	Encoding string      `json:"encoding"` // yaml / json / decoded-map
	Document string      `json:"document"`
	Plugins  []cfgPlugin `json:"plugins"`
	Rules    []string    `json:"rules_as_written"`
}

var (
	tagDecor  = []string{"", "", "", ",x", ":1", "{a}", "#2", "[0]", "-a,b", "'q", "&r", "*"}
	fileDecor = []string{"", "", "", ",v2", " copy", "#1", "{x}", "[1]", ":a", "'s", "a, b"}
)

type cfgGen struct {
	rng *rand.Rand
	rs  *ruleSet
	dir string
	st  *stats
	nf  int
}

// pickRules returns k distinct rule indexes whose text (for default type def) is accepted by ok.
func (g *cfgGen) pickRules(k int, def string, ok func(sepFlags) bool) []int {
	var out []int
	for _, i := range g.rng.Perm(len(g.rs.Rules)) {
		if len(out) >= k {
			break
		}
		if ok(flagsOf(g.rs.Rules[i].text(def))) {
			out = append(out, i)
		}
	}
	return out
}

func smallCount(rng *rand.Rand) int { // 0: 15 %, 1: 50 %, 2-3: 35 %
	switch x := rng.Intn(20); {
	case x < 3:
		return 0
	case x < 13:
		return 1
	}
	return 2 + rng.Intn(2)
}

// listNode spells a []string option.
func (g *cfgGen) listNode(name string, items []string, canOmit bool) (*ynode, cfgOption) {
	o := cfgOption{Name: name, Items: items}
	rng := g.rng
	if len(items) == 0 {
		switch {
		case canOmit && rng.Intn(3) != 0:
			o.Spelling = "omitted"
			return nil, o
		case canOmit && rng.Intn(3) == 0:
			o.Spelling = "null"
			return &ynode{kind: yNull}, o
		}
		o.Spelling = stFlow
		return &ynode{kind: yList, style: stFlow}, o
	}
	if len(items) == 1 && rng.Intn(20) < 11 {
		st := pickScalarStyle(rng, items[0], false, true)
		o.Spelling = "scalar/" + st
		g.st.add("cfg_options_written_as_scalar", 1)
		g.st.add("cfg_scalar_style:"+st, 1)
		if strings.Contains(items[0], ",") {
			g.st.add("cfg_scalar_options_containing_a_comma", 1)
		}
		return yS(items[0], st), o
	}
	n := &ynode{kind: yList, style: stBlock}
	if rng.Intn(3) == 0 {
		n.style = stFlow
	}
	o.Spelling = n.style
	g.st.add("cfg_options_written_as_"+n.style, 1)
	for _, it := range items {
		n.items = append(n.items, yS(it, pickScalarStyle(rng, it, n.style == stFlow, n.style == stBlock)))
	}
	return n, o
}

func (g *cfgGen) newFile(prefix string, noSpace bool, content string, rules []int) cfgFile {
	g.nf++
	dec := fileDecor[g.rng.Intn(len(fileDecor))]
	if noSpace {
		dec = strings.ReplaceAll(dec, " ", "_")
	}
	p := filepath.Join(g.dir, fmt.Sprintf("%s%d%s.txt", prefix, g.nf, dec))
	if err := os.WriteFile(p, []byte(content), 0o644); err != nil {
		panic(err)
	}
	if dec != "" {
		g.st.add("cfg_file_names_with_separator_characters", 1)
	}
	return cfgFile{Path: p, Text: content, rules: rules}
}

func (g *cfgGen) rulesOf(idx []int) []rule {
	var o []rule
	for _, i := range idx {
		o = append(o, g.rs.Rules[i])
	}
	return o
}

func noSpace(f sepFlags) bool     { return !f.space }
func noSpaceHash(f sepFlags) bool { return !f.space && !f.hash }
func anyRule(sepFlags) bool       { return true }

func (g *cfgGen) ipText(r rule) string {
	v4, v6 := ipsOf(r.Val)
	var f []string
	for _, a := range v4 {
		f = append(f, a.String())
	}
	at := g.rng.Intn(len(f) + 1)
	f = append(f[:at], append([]string{v6[0].String()}, f[at:]...)...)
	return strings.Join(f, []string{" ", "\t", "  "}[g.rng.Intn(3)])
}

func redirectValue(r rule) string { return "v" + strconv.Itoa(r.Val) + ".tgt" }

// build makes the plugins and the document tree.
func (g *cfgGen) build() (*ynode, []cfgPlugin) {
	rng, rs := g.rng, g.rs
	var plugins []cfgPlugin
	var nodes []*ynode
	mark := func(p *cfgPlugin, idx []int, o cfgOption) {
		for _, i := range idx {
			p.rules = append(p.rules, i)
			p.where[i] = o.Name + " (" + o.Spelling + ")"
		}
	}
	addOpt := func(p *cfgPlugin, args *ynode, name string, items []string, canOmit bool) cfgOption {
		n, o := g.listNode(name, items, canOmit)
		if n != nil {
			args.set(name, n)
		}
		p.Options = append(p.Options, o)
		return o
	}
	plug := func(p *cfgPlugin, args *ynode) {
		n := yM()
		n.set("tag", yS(p.Tag, pickScalarStyle(rng, p.Tag, false, false)))
		n.set("type", yS(p.Type, stPlain))
		if args != nil {
			n.set("args", args)
		}
		if rng.Intn(4) == 0 { // key order is free
			n.keys[0], n.keys[1] = n.keys[1], n.keys[0]
			n.vals[0], n.vals[1] = n.vals[1], n.vals[0]
		}
		nodes = append(nodes, n)
		plugins = append(plugins, *p)
	}
	textsOf := func(idx []int, def string) []string {
		var o []string
		for _, i := range idx {
			o = append(o, rs.Rules[i].text(def))
		}
		return o
	}
	plainFile := func(idx []int, def string, value func(rule) string) string {
		return render(rng, rs, g.rulesOf(idx), def, value, g.st)
	}

	// domain_set plugins
	var dsIdx []int
	for d, nd := 0, 1+rng.Intn(3); d < nd; d++ {
		p := cfgPlugin{Tag: "d" + strconv.Itoa(d) + tagDecor[rng.Intn(len(tagDecor))], Type: "domain_set", where: map[int]string{}}
		args := yM()
		ex := g.pickRules(smallCount(rng), tDomain, anyRule)
		o := addOpt(&p, args, "exps", textsOf(ex, tDomain), true)
		mark(&p, ex, o)
		var paths []string
		var fidx [][]int
		for f, nf := 0, []int{0, 0, 0, 1, 1, 1, 2}[rng.Intn(7)]; f < nf; f++ {
			fr := g.pickRules(1+rng.Intn(3), tDomain, noSpaceHash)
			cf := g.newFile("ds", false, plainFile(fr, tDomain, func(rule) string { return "" }), fr)
			p.Files = append(p.Files, cf)
			paths = append(paths, cf.Path)
			fidx = append(fidx, fr)
		}
		o = addOpt(&p, args, "files", paths, true)
		for _, fr := range fidx {
			mark(&p, fr, o)
		}
		var sets []string
		if len(dsIdx) > 0 {
			for _, j := range rng.Perm(len(dsIdx))[:min(len(dsIdx), []int{0, 0, 1, 1, 1, 2}[rng.Intn(6)])] {
				p.inc = append(p.inc, dsIdx[j])
				sets = append(sets, plugins[dsIdx[j]].Tag)
			}
		}
		addOpt(&p, args, "sets", sets, true)
		if len(args.keys) == 0 {
			args = nil
		}
		dsIdx = append(dsIdx, len(plugins))
		plug(&p, args)
	}

	// hosts
	if rng.Intn(10) < 7 {
		p := cfgPlugin{Tag: "hosts" + tagDecor[rng.Intn(len(tagDecor))], Type: "hosts", where: map[int]string{}}
		args := yM()
		en := g.pickRules(smallCount(rng), tFull, noSpace)
		var entries []string
		for _, i := range en {
			entries = append(entries, rs.Rules[i].text(tFull)+[]string{" ", "\t", "  "}[rng.Intn(3)]+g.ipText(rs.Rules[i]))
		}
		o := addOpt(&p, args, "entries", entries, true)
		mark(&p, en, o)
		var paths []string
		var fr []int
		if rng.Intn(3) == 0 {
			fr = g.pickRules(1+rng.Intn(3), tFull, noSpaceHash)
			cf := g.newFile("hosts", false, plainFile(fr, tFull, g.ipText), fr)
			p.Files = append(p.Files, cf)
			paths = append(paths, cf.Path)
		}
		o = addOpt(&p, args, "files", paths, true)
		mark(&p, fr, o)
		if len(args.keys) == 0 {
			args = nil
		}
		plug(&p, args)
	}

	// redirect
	if rng.Intn(10) < 7 {
		p := cfgPlugin{Tag: "redir" + tagDecor[rng.Intn(len(tagDecor))], Type: "redirect", where: map[int]string{}}
		args := yM()
		ru := g.pickRules(smallCount(rng), tFull, noSpace)
		var rules []string
		for _, i := range ru {
			rules = append(rules, rs.Rules[i].text(tFull)+[]string{" ", "\t", "   "}[rng.Intn(3)]+redirectValue(rs.Rules[i]))
		}
		o := addOpt(&p, args, "rules", rules, true)
		mark(&p, ru, o)
		var paths []string
		var fr []int
		if rng.Intn(3) == 0 {
			fr = g.pickRules(1+rng.Intn(3), tFull, noSpaceHash)
			cf := g.newFile("redir", false, plainFile(fr, tFull, redirectValue), fr)
			p.Files = append(p.Files, cf)
			paths = append(paths, cf.Path)
		}
		o = addOpt(&p, args, "files", paths, true)
		mark(&p, fr, o)
		if len(args.keys) == 0 {
			args = nil
		}
		plug(&p, args)
	}

	// sequence with a qname matcher: "qname exp... $set... &file..."
	if rng.Intn(10) < 8 {
		p := cfgPlugin{Tag: "seq" + tagDecor[rng.Intn(len(tagDecor))], Type: "sequence", where: map[int]string{}}
		var toks []string
		ex := g.pickRules([]int{0, 1, 1, 1, 2, 3}[rng.Intn(6)], tDomain, noSpace)
		toks = append(toks, textsOf(ex, tDomain)...)
		var fr []int
		if rng.Intn(4) == 0 {
			fr = g.pickRules(1+rng.Intn(2), tDomain, noSpaceHash)
			cf := g.newFile("qn", true, plainFile(fr, tDomain, func(rule) string { return "" }), fr)
			p.Files = append(p.Files, cf)
			toks = append(toks, "&"+cf.Path)
		}
		if rng.Intn(4) == 0 || len(toks) == 0 {
			j := dsIdx[rng.Intn(len(dsIdx))]
			p.inc = append(p.inc, j)
			toks = append(toks, "$"+plugins[j].Tag)
		}
		rng.Shuffle(len(toks), func(i, j int) { toks[i], toks[j] = toks[j], toks[i] })
		m := "qname" + []string{" ", "  "}[rng.Intn(2)] + strings.Join(toks, []string{" ", "  "}[rng.Intn(2)])
		matches := []string{m}
		switch rng.Intn(5) {
		case 0:
			matches = []string{m, "_true"}
		case 1:
			matches = []string{"_true", m}
		}
		ra := yM()
		n, o := g.listNode("matches", matches, false)
		ra.set("matches", n)
		ra.set("exec", yS("reject 3", pickScalarStyle(rng, "reject 3", false, false)))
		p.Options = append(p.Options, o)
		mark(&p, ex, o)
		mark(&p, fr, o)
		plug(&p, &ynode{kind: yList, style: stBlock, items: []*ynode{ra}})
	}

	root := yM()
	root.set("log", yM().set("level", yS("error", stPlain)))
	root.set("plugins", &ynode{kind: yList, style: stBlock, items: nodes})
	return root, plugins
}

// ---------------------------------------------------------------- running a case

func normYAML(v any) any {
	switch x := v.(type) {
	case map[string]any:
		for k, e := range x {
			x[k] = normYAML(e)
		}
	case map[any]any:
		o := map[string]any{}
		for k, e := range x {
			o[fmt.Sprint(k)] = normYAML(e)
		}
		return o
	case []any:
		for i, e := range x {
			x[i] = normYAML(e)
		}
	}
	return v
}

type harnessBug struct{ msg string }

// runCfgCase executes one case; it returns the findings (first per key).
func runCfgCase(seed int64, dir string, st *stats) []finding {
	rng := rand.New(rand.NewSource(seed ^ 0xcf6))
	rs := genCfgRuleSet(seed)
	g := &cfgGen{rng: rng, rs: rs, dir: dir, st: st}
	root, plugins := g.build()
	cc := &cfgCase{Phase: "config", Seed: seed, Plugins: plugins}
	for _, r := range rs.Rules {
		cc.Rules = append(cc.Rules, r.Typ+":"+r.Pat)
	}
	for _, r := range rs.Rules {
		t := r.Typ + ":" + r.Pat
		for _, c := range []struct{ ch, name string }{{",", "comma"}, {" ", "space"}, {"#", "hash"}, {"{", "brace"}, {"[", "bracket"}, {"'", "quote"}, {"\"", "dquote"}, {"\\", "backslash"}} {
			if strings.Contains(t, c.ch) {
				st.add("cfg_rules_containing_"+c.name, 1)
			}
		}
		if strings.Count(t, ":") > 1 {
			st.add("cfg_rules_containing_inner_colon", 1)
		}
	}

	cfg := &coremain.Config{Log: mlog.LogConfig{Level: "error"}}
	switch x := rng.Intn(20); {
	case x < 14:
		cc.Encoding = "yaml"
		cc.Document = renderYAML(rng, root)
		var back any
		if err := yaml.Unmarshal([]byte(cc.Document), &back); err != nil || !reflect.DeepEqual(normYAML(back), root.toAny()) {
			panic(harnessBug{fmt.Sprintf("config phase, case seed %d: the generated YAML does not mean what was intended (err=%v)\n%s", seed, err, cc.Document)})
		}
		p := filepath.Join(dir, "main.yaml")
		if err := os.WriteFile(p, []byte(cc.Document), 0o644); err != nil {
			panic(err)
		}
		cfg.Include = []string{p}
	case x < 17:
		cc.Encoding = "json"
		b, err := json.MarshalIndent(root.toAny(), "", " ")
		if err != nil {
			panic(err)
		}
		cc.Document = string(b)
		p := filepath.Join(dir, "main.json")
		if err := os.WriteFile(p, b, 0o644); err != nil {
			panic(err)
		}
		cfg.Include = []string{p}
	default:
		cc.Encoding = "decoded-map"
		b, _ := json.Marshal(root.toAny())
		cc.Document = string(b)
		for _, pn := range root.toAny().(map[string]any)["plugins"].([]any) {
			pm := pn.(map[string]any)
			cfg.Plugins = append(cfg.Plugins, coremain.PluginConfig{Tag: pm["tag"].(string), Type: pm["type"].(string), Args: pm["args"]})
		}
	}
	st.add("cfg_documents", 1)
	st.add("cfg_documents:"+cc.Encoding, 1)
	st.add("cfg_plugins", int64(len(plugins)))

	m, err := coremain.NewMosdns(cfg)
	if err != nil {
		return []finding{{Key: "cfg-load-error", What: fmt.Sprintf("config route: a %s document with valid rule sets was rejected by coremain.NewMosdns: %v", cc.Encoding, err),
			Case: map[string]any{"phase": "config", "case_seed": seed, "target": "cfg", "case": cc, "error": err.Error()}}}
	}
	defer func() {
		m.CloseWithErr(nil)
		_ = m.GetSafeClose().WaitClosed()
	}()

	if st.wantSample {
		st.sample = cc
	}
	ref := newRefSet(rs)
	var out []finding
	seen := map[string]bool{}
	// transitive rule indexes per plugin (included plugins always precede)
	all := make([]map[int]bool, len(plugins))
	for i := range plugins {
		all[i] = map[int]bool{}
		for _, ri := range plugins[i].rules {
			all[i][ri] = true
		}
		for _, j := range plugins[i].inc {
			for ri := range all[j] {
				all[i][ri] = true
			}
		}
	}
	for i := range plugins {
		p := &plugins[i]
		var probe func(name string, k int) (int, bool)
		switch p.Type {
		case "domain_set":
			prov, _ := m.GetPlugin(p.Tag).(data_provider.DomainMatcherProvider)
			if prov == nil {
				panic(harnessBug{"plugin " + p.Tag + " is not a domain matcher provider"})
			}
			dm := prov.GetDomainMatcher()
			probe = func(n string, _ int) (int, bool) { _, ok := dm.Match(n); return -1, ok }
		case "hosts":
			hp, _ := m.GetPlugin(p.Tag).(*hostsplugin.Hosts)
			if hp == nil {
				panic(harnessBug{"plugin " + p.Tag + " is not a hosts plugin"})
			}
			probe = func(n string, k int) (int, bool) { return probeHosts(hp, n, k) }
		case "redirect":
			rp, _ := m.GetPlugin(p.Tag).(*redirect.Redirect)
			if rp == nil {
				panic(harnessBug{"plugin " + p.Tag + " is not a redirect plugin"})
			}
			probe = func(n string, _ int) (int, bool) { return probeRedirect(rp, n) }
		case "sequence":
			sp, _ := m.GetPlugin(p.Tag).(*sequence.Sequence)
			if sp == nil {
				panic(harnessBug{"plugin " + p.Tag + " is not a sequence"})
			}
			probe = func(n string, _ int) (int, bool) {
				q := new(dns.Msg)
				q.Question = []dns.Question{{Name: n, Qtype: dns.TypeA, Qclass: dns.ClassINET}}
				qc := query_context.NewContext(q)
				if err := sp.Exec(context.Background(), qc); err != nil {
					return -2, true
				}
				return -1, qc.R() != nil
			}
		}
		var idx []int
		for ri := range all[i] {
			idx = append(idx, ri)
		}
		sort.Ints(idx)
		sub := ref.subset(all[i])
		sub.byVal = map[int]*refRule{}
		for k := range sub.rules {
			sub.byVal[sub.rules[k].val] = &sub.rules[k]
		}
		prs := &ruleSet{Seed: seed, Pool: rs.Pool, Rules: g.rulesOf(idx)}
		names := probeNames(rng, prs, 36, nil)
		route := "cfg-" + p.Type
		var evals int64
		for k, name := range names {
			exp := sub.eval(name, mAll)
			v, got := probe(name, k)
			evals++
			if exp.Match {
				st.add("cfg_probes_matching", 1)
				st.fp["cfg|"+strconv.FormatInt(seed, 36)+"|"+strconv.Itoa(i)+"|"+exp.Winner] = struct{}{}
			}
			key := mismatchKey(sub, route, name, exp, v, got)
			if key == "" {
				continue
			}
			// class: route + direction (the rule types are the business of the basic routes)
			switch {
			case exp.Match && !got:
				key = route + "-false-negative"
			case !exp.Match && got:
				key = route + "-false-positive"
			default:
				key = route + "-wrong-value"
			}
			st.add("mismatches", 1)
			if seen[key] {
				continue
			}
			seen[key] = true
			what := mismatch{key, route, exp, v, got}.describe(sub, name)
			var by []string
			for _, a := range exp.Allowed {
				for _, ri := range idx {
					if rs.Rules[ri].Val == a {
						w := p.where[ri]
						if w == "" {
							w = "an included set"
						}
						by = append(by, fmt.Sprintf("%q given in %s", rs.Rules[ri].Typ+":"+rs.Rules[ri].Pat, w))
					}
				}
			}
			var spell []string
			for _, o := range p.Options {
				spell = append(spell, o.Name+"="+o.Spelling)
			}
			what += fmt.Sprintf(" [%s document, plugin %q (%s)", cc.Encoding, p.Tag, strings.Join(spell, " "))
			if len(by) > 0 {
				what += "; describing rule(s): " + strings.Join(by, "; ")
			}
			what += "]"
			var union []string
			for _, ri := range idx {
				union = append(union, rs.Rules[ri].Typ+":"+rs.Rules[ri].Pat)
			}
			out = append(out, finding{Key: key, What: what, Case: map[string]any{
				"phase": "config", "case_seed": seed, "target": route, "case": cc, "probed_plugin": p.Tag, "name": name, "normalised_name": refNorm(name),
				"rules_of_probed_plugin(own + included)": union, "expected": exp, "got_match": got, "got_value": v,
			}})
		}
		st.add("evaluations", evals)
		st.add("evaluations:"+route, evals)
	}
	return out
}

func probeHosts(hp *hostsplugin.Hosts, n string, i int) (int, bool) {
	q := new(dns.Msg)
	qt := dns.TypeA
	if i%2 == 1 {
		qt = dns.TypeAAAA
	}
	q.Id = uint16(i)
	q.Question = []dns.Question{{Name: n, Qtype: qt, Qclass: dns.ClassINET}}
	r := hp.Response(q)
	if r == nil {
		return 0, false
	}
	var v4, v6 []netip.Addr
	for _, rr := range r.Answer {
		if rr.Header().Name != n {
			return -2, true
		}
		switch a := rr.(type) {
		case *dns.A:
			ip, _ := netip.AddrFromSlice(a.A)
			v4 = append(v4, ip)
		case *dns.AAAA:
			ip, _ := netip.AddrFromSlice(a.AAAA)
			v6 = append(v6, ip)
		}
	}
	return decodeIPs(v4, v6, qt == dns.TypeA, qt == dns.TypeAAAA), true
}

func probeRedirect(rp *redirect.Redirect, n string) (int, bool) {
	q := new(dns.Msg)
	q.Question = []dns.Question{{Name: n, Qtype: dns.TypeA, Qclass: dns.ClassINET}}
	qc := query_context.NewContext(q)
	seen := ""
	next := sequence.NewChainWalker([]*sequence.ChainNode{{E: sequence.ExecutableFunc(func(_ context.Context, c *query_context.Context) error {
		seen = c.Q().Question[0].Name
		return nil
	})}}, nil)
	if err := rp.Exec(context.Background(), qc, next); err != nil {
		return -2, true
	}
	if seen == n {
		return 0, false
	}
	if strings.HasPrefix(seen, "v") && strings.HasSuffix(seen, ".tgt.") {
		if v, err := strconv.Atoi(seen[1 : len(seen)-5]); err == nil {
			return v, true
		}
	}
	return -2, true
}
