package main

// Runner for the composed-route phases (config documents, rule sources): a
// fixed, seed-determined list of cases spread over worker goroutines; per
// violation key the witness with the smallest case index is kept.

import (
	"math/rand"
	"os"
	"path/filepath"
	"strconv"
	"sync"
)

type phaseWitness struct {
	idx int
	f   finding
	n   int
}

type phaseOut struct {
	best map[string]*phaseWitness
	tot  map[string]int64
	bug  string // harness self-check failure

	sample any // written-out first case
}

func runPhase(name string, nCases int, seed int64, workers int, dir string, run func(seed int64, dir string, st *stats) []finding) *phaseOut {
	master := rand.New(rand.NewSource(seed))
	seeds := make([]int64, nCases)
	for i := range seeds {
		seeds[i] = master.Int63()
	}
	out := &phaseOut{best: map[string]*phaseWitness{}, tot: map[string]int64{}}
	var (
		mu   sync.Mutex
		wg   sync.WaitGroup
		next int
	)
	for w := 0; w < workers; w++ {
		wdir := filepath.Join(dir, name+strconv.Itoa(w))
		if err := os.MkdirAll(wdir, 0o755); err != nil {
			out.bug = "cannot create temp dir: " + err.Error()
			return out
		}
		wg.Add(1)
		go func() {
			defer wg.Done()
			st := newStats()
			defer func() {
				mu.Lock()
				for k, v := range st.c {
					out.tot[k] += v
				}
				mu.Unlock()
				for k := range st.fp {
					rep.Nontrivial(k)
				}
			}()
			for {
				mu.Lock()
				i := next
				next++
				stop := out.bug != ""
				mu.Unlock()
				if i >= nCases || stop {
					return
				}
				st.wantSample = i == 0
				fs, bug := runGuarded(run, seeds[i], wdir, st)
				mu.Lock()
				if i == 0 {
					out.sample = st.sample
				}
				if bug != "" && out.bug == "" {
					out.bug = bug
				}
				for _, f := range fs {
					w := out.best[f.Key]
					if w == nil {
						w = &phaseWitness{idx: i, f: f}
						out.best[f.Key] = w
					} else if i < w.idx {
						w.idx, w.f = i, f
					}
					w.n++
				}
				mu.Unlock()
				if len(st.fp) > 4096 {
					for k := range st.fp {
						rep.Nontrivial(k)
						delete(st.fp, k)
					}
				}
			}
		}()
	}
	wg.Wait()
	return out
}

// runGuarded turns a failed self-check of the harness into a message; anything
// else that panics (mosdns code) keeps panicking.
func runGuarded(run func(int64, string, *stats) []finding, seed int64, dir string, st *stats) (fs []finding, bug string) {
	defer func() {
		if r := recover(); r != nil {
			hb, ok := r.(harnessBug)
			if !ok {
				panic(r)
			}
			bug = hb.msg
		}
	}()
	return run(seed, dir, st), ""
}

// rankKey orders the violation classes of a composed phase: one defect shows as
// several classes (a rule cut in two gives a false negative, a false positive
// and, for other rules, a load error) and on every route built on the broken
// code. Only the best-ranked class on the most basic route is reported; the
// others are listed in the evidence.
func rankKey(key string) int {
	r := 0
	for i, route := range []string{"src-loader-novalue", "src-loader", "src-domainset-file", "src-qname-file", "src-hosts-file", "src-redirect-file", "cfg-domain_set", "cfg-hosts", "cfg-redirect", "cfg-sequence", "cfg"} {
		if len(key) > len(route) && key[:len(route)+1] == route+"-" {
			r = i
			key = key[len(route)+1:]
			break
		}
	}
	if r == 0 { // src-loader-novalue is checked first only because of the common prefix
		r = 1
	} else if r == 1 {
		r = 0
	}
	c := 9
	for i, class := range []string{"partial-set", "false-negative", "wrong-value", "false-positive", "load-error"} {
		if key == class {
			c = i
		}
	}
	if r >= 6 {
		return 100 + c*10 + r // config documents: class first, then plugin type
	}
	return r*10 + c // sources: most basic route first
}

// report turns the witnesses of a phase into violations.
func (o *phaseOut) report(phase string) {
	keys := make([]string, 0, len(o.best))
	for k := range o.best {
		keys = append(keys, k)
	}
	sortStrings(keys)
	bestKey := ""
	for _, k := range keys {
		if bestKey == "" || rankKey(k) < rankKey(bestKey) {
			bestKey = k
		}
	}
	others := map[string]int{}
	for _, k := range keys {
		w := o.best[k]
		if k != bestKey {
			others[k] = w.n
			continue
		}
		w.f.Case["case_index"] = w.idx
		w.f.Case["cases_showing_this_key"] = w.n
		for i := 0; i < w.n; i++ {
			rep.Violation(w.f.Key, w.f.What, w.f.Case)
		}
	}
	if len(others) > 0 {
		rep.Extra(phase+"_phase_further_mismatch_classes(cases; attributed to the reported key)", others)
	}
	if o.bug != "" {
		rep.Inconclusive("%s phase: harness self-check failed: %s", phase, o.bug)
	}
}

func sortStrings(s []string) {
	for i := 1; i < len(s); i++ {
		for j := i; j > 0 && s[j] < s[j-1]; j-- {
			s[j], s[j-1] = s[j-1], s[j]
		}
	}
}
