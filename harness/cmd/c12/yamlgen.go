package main

// A small configuration-document tree with an own YAML writer (every scalar in
// a chosen spelling: plain, single quoted, double quoted with escapes, literal
// block; lists in block or flow form or - one element - as a bare scalar) and a
// JSON / in-memory rendering. Nothing here imports mosdns. The YAML text is
// self-checked with gopkg.in/yaml.v3 before it is handed to mosdns: if the
// document does not mean what the generator intended, that is a harness bug.

import (
	"fmt"
	"math/rand"
	"strings"
)

type ykind int

const (
	yScalar ykind = iota
	yList
	yMap
	yNull
)

const (
	stPlain   = "plain"
	stSingle  = "single-quoted"
	stDouble  = "double-quoted"
	stLiteral = "literal-block"
	stBlock   = "block-list"
	stFlow    = "flow-list"
)

type ynode struct {
	kind  ykind
	s     string
	style string // scalar: stPlain.. ; list: stBlock / stFlow
	items []*ynode
	keys  []string
	vals  []*ynode
}

func yS(s, style string) *ynode { return &ynode{kind: yScalar, s: s, style: style} }
func yM() *ynode                { return &ynode{kind: yMap} }
func (n *ynode) set(k string, v *ynode) *ynode {
	n.keys = append(n.keys, k)
	n.vals = append(n.vals, v)
	return n
}

// toAny is the meaning of the document.
func (n *ynode) toAny() any {
	switch n.kind {
	case yScalar:
		return n.s
	case yList:
		o := make([]any, 0, len(n.items))
		for _, it := range n.items {
			o = append(o, it.toAny())
		}
		return o
	case yMap:
		o := map[string]any{}
		for i, k := range n.keys {
			o[k] = n.vals[i].toAny()
		}
		return o
	}
	return nil
}

var yamlReserved = map[string]bool{"null": true, "true": true, "false": true, "yes": true, "no": true, "on": true, "off": true, "y": true, "n": true, "nan": true, "inf": true}

// plainOK: may s be written as a YAML plain scalar (and still be a string)?
// Deliberately conservative.
func plainOK(s string, flow bool) bool {
	if s == "" || yamlReserved[strings.ToLower(s)] {
		return false
	}
	c := s[0]
	if !('a' <= c && c <= 'z' || 'A' <= c && c <= 'Z' || c == '/' || c == '^' || c == '\\' || c == '(' || c == '_' || c == '.' && len(s) > 1 && (s[1] < '0' || s[1] > '9')) {
		return false
	}
	if s[len(s)-1] == ' ' || s[len(s)-1] == ':' {
		return false
	}
	for i := 0; i < len(s); i++ {
		c := s[i]
		switch {
		case c < 0x20 || c > 0x7e:
			return false
		case c == ':' && i+1 < len(s) && s[i+1] == ' ':
			return false
		case c == '#' && i > 0 && s[i-1] == ' ':
			return false
		case flow && !('a' <= c && c <= 'z' || 'A' <= c && c <= 'Z' || '0' <= c && c <= '9' || strings.IndexByte("._-^$\\/:()+ ", c) >= 0):
			return false // inside [...] only a conservative alphabet is written plain
		}
	}
	return true
}

func literalOK(s string) bool {
	if s == "" || s[0] == ' ' || s[0] == '\t' {
		return false
	}
	for i := 0; i < len(s); i++ {
		if s[i] < 0x20 && s[i] != '\t' || s[i] > 0x7e {
			return false
		}
	}
	return true
}

// pickScalarStyle chooses a legal spelling for s.
func pickScalarStyle(rng *rand.Rand, s string, flow, allowLiteral bool) string {
	for {
		switch rng.Intn(7) {
		case 0, 1, 2:
			if plainOK(s, flow) {
				return stPlain
			}
		case 3, 4:
			return stSingle
		case 5:
			return stDouble
		default:
			if allowLiteral && !flow && literalOK(s) {
				return stLiteral
			}
		}
	}
}

func quoteDouble(rng *rand.Rand, s string) string {
	var b strings.Builder
	b.WriteByte('"')
	for i := 0; i < len(s); i++ {
		c := s[i]
		switch {
		case c == '\\':
			b.WriteString(`\\`)
		case c == '"':
			b.WriteString(`\"`)
		case c == '\t':
			b.WriteString(`\t`)
		case c < 0x20 || c > 0x7e:
			fmt.Fprintf(&b, `\x%02x`, c)
		case rng != nil && rng.Intn(16) == 0:
			fmt.Fprintf(&b, `\x%02x`, c) // any character may be written as an escape
		default:
			b.WriteByte(c)
		}
	}
	b.WriteByte('"')
	return b.String()
}

// inlineScalar renders every style but the literal block.
func inlineScalar(rng *rand.Rand, n *ynode) string {
	switch n.style {
	case stPlain:
		return n.s
	case stDouble:
		return quoteDouble(rng, n.s)
	}
	return "'" + strings.ReplaceAll(n.s, "'", "''") + "'"
}

type yamlWriter struct {
	rng *rand.Rand
	b   strings.Builder
}

func (w *yamlWriter) comment(ind int) {
	if w.rng.Intn(6) == 0 {
		w.b.WriteString(strings.Repeat(" ", ind) + []string{"# note", "# exps: [a, b]", "#- 'full:a.com'", "# x, y: z"}[w.rng.Intn(4)] + "\n")
	}
}

func (w *yamlWriter) tail() string {
	if w.rng.Intn(7) == 0 {
		return []string{" # note", "  # a, b", " #'x'"}[w.rng.Intn(3)]
	}
	return ""
}

func (w *yamlWriter) key(k string) string {
	switch w.rng.Intn(12) {
	case 0:
		return `"` + k + `"`
	case 1:
		return "'" + k + "'"
	}
	return k
}

// value writes "<prefix> value" where prefix is "key:" or "-" already indented
// by ind spaces; children are indented relative to ind.
func (w *yamlWriter) value(prefix string, ind int, n *ynode) {
	pad := strings.Repeat(" ", ind)
	base := ind // column of the key (or of the "-") the children hang from
	if strings.HasPrefix(prefix, "- ") {
		base = ind + 2
	}
	switch n.kind {
	case yNull:
		w.b.WriteString(pad + prefix + []string{"", " ~", " null"}[w.rng.Intn(3)] + "\n")
	case yScalar:
		if n.style == stLiteral {
			w.b.WriteString(pad + prefix + " |-\n" + pad + "    " + n.s + "\n")
			return
		}
		w.b.WriteString(pad + prefix + " " + inlineScalar(w.rng, n) + w.tail() + "\n")
	case yList:
		if n.style == stFlow || len(n.items) == 0 {
			var parts []string
			for _, it := range n.items {
				parts = append(parts, inlineScalar(w.rng, it))
			}
			sep := []string{", ", ",", " , "}[w.rng.Intn(3)]
			w.b.WriteString(pad + prefix + " [" + strings.Join(parts, sep) + "]" + w.tail() + "\n")
			return
		}
		w.b.WriteString(pad + prefix + "\n")
		ci := base + 2
		if prefix != "-" && w.rng.Intn(3) == 0 {
			ci = base // "- item" may sit at the indentation of its key
		}
		for _, it := range n.items {
			w.comment(ci)
			w.value("-", ci, it)
		}
	case yMap:
		if prefix == "-" {
			// "- k1: v1" then the remaining keys two columns deeper
			for i, k := range n.keys {
				if i == 0 {
					w.value("- "+w.key(k)+":", ind, n.vals[i])
				} else {
					w.value(w.key(k)+":", ind+2, n.vals[i])
				}
			}
			return
		}
		if prefix != "" {
			w.b.WriteString(pad + prefix + "\n")
			ind = base + 2
		}
		for i, k := range n.keys {
			w.comment(ind)
			w.value(w.key(k)+":", ind, n.vals[i])
		}
	}
}

func renderYAML(rng *rand.Rand, root *ynode) string {
	w := &yamlWriter{rng: rng}
	w.value("", 0, root)
	return w.b.String()
}
