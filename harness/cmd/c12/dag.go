package main

// Route "domainset-dag": several domain_set plugins that include each other
// through `sets:` (a random DAG with shared included sets). All plugins are built
// first, in dependency order; only then is every one of them probed against the
// reference union of its own rules and the rules of the sets it transitively
// includes. A set must keep matching exactly that union whatever other sets were
// built after it.

import (
	"fmt"
	"math/rand"
	"strconv"

	"github.com/IrineSistiana/mosdns/v5/coremain"
	"github.com/IrineSistiana/mosdns/v5/plugin/data_provider/domain_set"
)

type dagNode struct {
	Tag  string   `json:"tag"`
	Exps []string `json:"exps,omitempty"`
	File []string `json:"file_rules,omitempty"`
	Sets []string `json:"sets,omitempty"`

	exps, file []int // indexes into rs.Rules
	inc        []int // indexes of included nodes (all smaller than the node's own)
}

func pickDistinct(rng *rand.Rand, n, k int, first int) []int {
	// k distinct numbers of 0..n-1 in random order; if first >= 0 it is included and
	// put at a random early position
	perm := rng.Perm(n)
	out := make([]int, 0, k)
	if first >= 0 && k > 0 {
		out = append(out, first)
	}
	for _, x := range perm {
		if len(out) >= k {
			break
		}
		if x != first {
			out = append(out, x)
		}
	}
	if first >= 0 && len(out) > 1 && rng.Intn(5) == 0 {
		j := rng.Intn(len(out))
		out[0], out[j] = out[j], out[0]
	}
	return out
}

// genDAG makes 3-10 plugins over the rules of rs. Rules may appear in several
// plugins. Shapes: leaves with own rules, sets with own rules and 1..8 members,
// sets consisting of `sets:` only, and one or two "popular" sets that many later
// sets include.
func genDAG(rng *rand.Rand, rs *ruleSet) []dagNode {
	k := 3 + rng.Intn(9)
	nodes := make([]dagNode, k)
	// own rules are dealt from a shuffled deck (reshuffled when exhausted), so that
	// different plugins mostly hold different rules
	var deck []int
	deal := func() int {
		if len(deck) == 0 {
			deck = rng.Perm(len(rs.Rules))
		}
		x := deck[0]
		deck = deck[1:]
		return x
	}
	popular := -1
	if k >= 4 {
		popular = 1 + rng.Intn(k-3)
	}
	for i := range nodes {
		n := &nodes[i]
		n.Tag = "s" + strconv.Itoa(i)
		own := 0
		switch {
		case i == 0 || rng.Intn(10) < 6:
			own = 1 + rng.Intn(2)
		}
		if i > popular && popular >= 0 && rng.Intn(2) == 0 {
			own = 0 // consumers made of `sets:` only
		}
		if i == popular && rng.Intn(7) != 0 {
			own = 1 + rng.Intn(2)
		}
		for j := 0; j < own; j++ {
			ri := deal()
			if rng.Intn(3) == 0 {
				n.file = append(n.file, ri)
			} else {
				n.exps = append(n.exps, ri)
			}
		}
		if i == 0 {
			continue
		}
		var cnt int
		switch {
		case i == popular:
			w := []int{1, 2, 2, 2, 3, 4, 4, 5, 6, 7, 8} // 1..8 members: group slices of every length
			cnt = min(w[rng.Intn(len(w))], i)
		case i > popular && popular >= 0:
			cnt = rng.Intn(min(i, 3) + 1)
			if rng.Intn(10) < 8 {
				// the shared set plus, usually, one or two others
				cnt = min(i, 2+rng.Intn(2))
				if rng.Intn(5) == 0 {
					cnt = 1
				}
				n.inc = pickDistinct(rng, i, cnt, popular)
				continue
			}
		default:
			if rng.Intn(3) == 0 {
				cnt = 1 + rng.Intn(min(i, 2))
			}
		}
		n.inc = pickDistinct(rng, i, cnt, -1)
	}
	for i := range nodes {
		n := &nodes[i]
		for _, ri := range n.exps {
			n.Exps = append(n.Exps, rs.Rules[ri].text(tDomain))
		}
		for _, ri := range n.file {
			n.File = append(n.File, rs.Rules[ri].text(tDomain))
		}
		for _, j := range n.inc {
			n.Sets = append(n.Sets, nodes[j].Tag)
		}
	}
	return nodes
}

// subset returns a reference over the given rules only (compiled regexps are shared).
func (s *refSet) subset(idx map[int]bool) *refSet {
	o := &refSet{}
	for i := range s.rules {
		if idx[i] {
			o.rules = append(o.rules, s.rules[i])
		}
	}
	return o
}

const routeDAG = "domainset-dag"

// checkDAG builds the plugins, then probes each of them. It returns the
// mismatches (first per key) as findings.
func checkDAG(base *ruleSet, b *builder, nProbes int, extra []string, st *stats) []finding {
	rng := rand.New(rand.NewSource(base.Seed ^ 0xda6))
	// the topology gets a larger rule set of its own: the base pool plus further
	// pool names, 14-30 rules, mostly the selective types (full / domain) so that
	// the plugins differ in what they describe; regexp and keyword rules take part too
	rs := &ruleSet{Seed: base.Seed, Default: tDomain, Pool: append([]string(nil), base.Pool...)}
	for i := 2 + rng.Intn(3); i > 0; i-- {
		rs.Pool = append(rs.Pool, randName(rng, 1, 3))
	}
	w := typeWeights{3, 6, 1, 1}
	for i, n := 0, 14+rng.Intn(17); i < n; i++ {
		r := rule{Val: i + 1, Bare: rng.Intn(10) < 6}
		fillRule(rng, rs, &r, w.pick(rng))
		rs.Rules = append(rs.Rules, r)
	}
	ref := newRefSet(rs)
	names := probeNames(rng, rs, nProbes, extra)
	nodes := genDAG(rng, rs)
	plugins := map[string]any{}
	mos := coremain.NewTestMosdnsWithPlugins(plugins)
	built := make([]*domain_set.DomainSet, len(nodes))
	all := make([]map[int]bool, len(nodes))
	users := make([]int, len(nodes))
	for i := range nodes {
		n := &nodes[i]
		args := &domain_set.Args{Exps: n.Exps, Sets: n.Sets}
		var ftext string
		if len(n.file) > 0 {
			var fr []rule
			for _, ri := range n.file {
				fr = append(fr, rs.Rules[ri])
			}
			ftext = render(rng, rs, fr, tDomain, func(rule) string { return "" }, st)
			args.Files = []string{b.tmpFile("dag"+strconv.Itoa(i)+".txt", ftext)}
		}
		ds, err := domain_set.NewDomainSet(coremain.NewBP(n.Tag, mos), args)
		if err != nil {
			return []finding{{
				Key:  routeDAG + "-load-error",
				What: fmt.Sprintf("%s: plugin %s with valid rules was rejected: %v", routeDAG, n.Tag, err),
				Case: map[string]any{"set": base, "dag_rule_set": rs, "target": routeDAG, "plugins": nodes, "failing_plugin": n.Tag, "file": ftext, "error": err.Error()},
			}}
		}
		plugins[n.Tag] = ds
		built[i] = ds
		all[i] = map[int]bool{}
		for _, ri := range n.exps {
			all[i][ri] = true
		}
		for _, ri := range n.file {
			all[i][ri] = true
		}
		for _, j := range n.inc {
			users[j]++
			for ri := range all[j] {
				all[i][ri] = true
			}
		}
		st.add("dag_plugins", 1)
		if len(n.exps)+len(n.file) == 0 {
			st.add("dag_plugins_made_of_sets_only", 1)
			if len(n.inc) >= 2 && users[n.inc[0]] >= 2 {
				st.add("dag_sets_only_plugins_listing_a_shared_set_first_then_another", 1)
			}
		}
		if len(n.inc) > 0 {
			// non-trivial for this route: a plugin composed of other plugins
			st.fp["dag|"+strconv.FormatInt(base.Seed, 36)+"|"+strconv.Itoa(i)+"|"+strconv.Itoa(len(n.inc))] = struct{}{}
			st.add("dag_plugins_with_"+strconv.Itoa(len(n.inc))+"_included_sets", 1)
		}
	}
	for _, u := range users {
		if u >= 2 {
			st.add("dag_sets_included_by_several_plugins", 1)
		}
	}
	st.add("dag_topologies", 1)

	// every plugin is probed only now, after ALL of them exist
	var out []finding
	seen := map[string]bool{}
	var evals int64
	for i := range nodes {
		sub := ref.subset(all[i])
		m := built[i].GetDomainMatcher()
		use := names
		if len(nodes[i].inc) == 0 || len(nodes[i].exps)+len(nodes[i].file) > 0 {
			use = names[:min(len(names), nDagProbes)] // composition is what this route is about
		}
		for _, name := range use {
			exp := sub.eval(name, mAll)
			_, got := m.Match(name)
			evals++
			// one class per direction: the route is about composition, not rule types
			key := ""
			switch {
			case exp.Match && !got:
				key = routeDAG + "-false-negative"
			case !exp.Match && got:
				key = routeDAG + "-false-positive"
			default:
				continue
			}
			st.add("mismatches", 1)
			if seen[key] {
				continue
			}
			seen[key] = true
			var later []string
			for _, n := range nodes[i+1:] {
				later = append(later, n.Tag)
			}
			var union []string
			for ri, r := range rs.Rules {
				if all[i][ri] {
					union = append(union, r.text(tDomain))
				}
			}
			what := mismatch{key, routeDAG, exp, -1, got}.describe(sub, name)
			out = append(out, finding{Key: key, What: fmt.Sprintf("%s [plugin %s, probed after all %d plugins were built]", what, nodes[i].Tag, len(nodes)), Case: map[string]any{
				"set": base, "dag_rule_set": rs, "target": routeDAG, "name": name, "normalised_name": refNorm(name), "plugins_in_build_order": nodes,
				"probed_plugin": nodes[i].Tag, "rules_of_probed_plugin(own + transitively included)": union, "plugins_built_later": later,
				"expected": exp, "got_match": got,
			}})
		}
	}
	st.add("evaluations", evals)
	st.add("evaluations:"+routeDAG, evals)
	return out
}
