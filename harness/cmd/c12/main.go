// C12 — domain rules match exactly the names they describe.
//
// Differential runtime check: seeded rule sets over a tiny label alphabet are
// loaded into the real matchers through every public route (MixMatcher.Add,
// each sub-matcher on its own, the text loader with comments / blanks / default
// type / values, the domain_set plugin with exps + files + nested sets,
// pkg/hosts Lookup / LookupMsg via the hosts plugin constructor, the redirect
// plugin) and probed with names derived from the rules. Every answer (matched?
// which value?) is compared with a naive linear reference written from the
// property statement (ref.go). Where the statement leaves a choice open the
// reference yields a set of allowed values.
//
// Two composed phases follow the basic routes: configuration documents read by
// coremain.NewMosdns in every spelling (cfg.go, yamlgen.go) and rule sources of
// every length class / line-end convention / reader behaviour (src.go); see the
// comments at the top of those files. phases.go runs them.
package main

import (
	"context"
	"fmt"
	"hash/fnv"
	"math/rand"
	"net/netip"
	"os"
	"path/filepath"
	"runtime"
	"sort"
	"strconv"
	"strings"
	"sync"
	"time"

	"github.com/IrineSistiana/mosdns/v5/coremain"
	"github.com/IrineSistiana/mosdns/v5/pkg/hosts"
	"github.com/IrineSistiana/mosdns/v5/pkg/matcher/domain"
	"github.com/IrineSistiana/mosdns/v5/pkg/query_context"
	"github.com/IrineSistiana/mosdns/v5/plugin/data_provider/domain_set"
	hostsplugin "github.com/IrineSistiana/mosdns/v5/plugin/executable/hosts"
	"github.com/IrineSistiana/mosdns/v5/plugin/executable/redirect"
	"github.com/IrineSistiana/mosdns/v5/plugin/executable/sequence"
	"github.com/miekg/dns"

	"verifharness/lib/evid"
)

var rep *evid.Reporter

// ---------------------------------------------------------------- targets

// A target answers a probe. val < 0 means "this route carries no value".
type target struct {
	name string
	mask int // rule types present behind this route
	fn   func(name string, i int) (val int, ok bool)
}

type finding struct {
	Key  string
	What string
	Case map[string]any
}

// nDagProbes: probe names used per plugin of a domain_set topology.
const nDagProbes = 40

// decoyVal is the value carried by commented-out decoy rules in loader texts.
const decoyVal = 9999

// render writes the rule set as a text file for LoadFromTextReader: one rule
// per line, random surrounding blanks, trailing and whole-line comments, blank
// lines, CRLF line ends, commented-out decoy rules. value(r) gives the second
// section of a line ("" = none).
func render(rng *rand.Rand, rs *ruleSet, rules []rule, def string, value func(r rule) string, st *stats) string {
	var b strings.Builder
	ws := func() string { return []string{"", "", " ", "\t", "  ", " \t "}[rng.Intn(6)] }
	eol := func() string {
		if rng.Intn(6) == 0 {
			return "\r\n"
		}
		return "\n"
	}
	noise := func() {
		switch rng.Intn(9) {
		case 0:
			b.WriteString(eol())
			st.add("loader_blank_lines", 1)
		case 1:
			b.WriteString(" \t " + eol())
			st.add("loader_blank_lines", 1)
		case 2:
			b.WriteString(ws() + "# a comment: full:a.com" + eol())
			st.add("loader_comment_lines", 1)
		case 3:
			// commented-out decoy rule that would match many probes if it were loaded
			t := allTypes[rng.Intn(4)]
			p := rs.Pool[rng.Intn(len(rs.Pool))]
			if t != tRegexp && t != tKeyword && rng.Intn(2) == 0 {
				p = labelsOf(p)[len(labelsOf(p))-1]
			}
			d := rule{Typ: t, Pat: p, Val: decoyVal}
			b.WriteString(ws() + "#" + ws() + d.text("") + " " + value(d) + eol())
			st.add("loader_decoy_rules_in_comments", 1)
		}
	}
	for i, r := range rules {
		noise()
		line := ws() + r.text(def)
		if v := value(r); v != "" {
			line += []string{" ", "\t", "  ", " \t"}[rng.Intn(4)] + v
		}
		switch rng.Intn(5) {
		case 0:
			line += " # " + []string{"note", "full:com 1", "domain:a"}[rng.Intn(3)]
			st.add("loader_trailing_comments", 1)
		case 1:
			line += "#x"
			st.add("loader_trailing_comments", 1)
		default:
			line += ws()
		}
		b.WriteString(line)
		if i < len(rules)-1 || rng.Intn(2) == 0 {
			b.WriteString(eol())
		}
	}
	if rng.Intn(3) == 0 {
		noise()
	}
	return b.String()
}

// IP values for hosts: rule value v <-> 10.hi.lo.k / fd00::hi:lo:k
func ipsOf(v int) (v4, v6 []netip.Addr) {
	hi, lo := byte(v>>8), byte(v)
	for k := 0; k < 1+v%2; k++ {
		v4 = append(v4, netip.AddrFrom4([4]byte{10, hi, lo, byte(k + 1)}))
	}
	var a [16]byte
	a[0], a[13], a[14], a[15] = 0xfd, hi, lo, 1
	v6 = append(v6, netip.AddrFrom16(a))
	return
}

func sameAddrs(a, b []netip.Addr) bool {
	if len(a) != len(b) {
		return false
	}
	for i := range a {
		if a[i] != b[i] {
			return false
		}
	}
	return true
}

// decodeIPs maps what a hosts lookup returned back to a rule value (-2 = not
// the address list of any single rule).
func decodeIPs(v4, v6 []netip.Addr, want4, want6 bool) int {
	v := -2
	switch {
	case want4 && len(v4) > 0:
		b := v4[0].As4()
		v = int(b[1])<<8 | int(b[2])
	case want6 && len(v6) > 0:
		b := v6[0].As16()
		v = int(b[13])<<8 | int(b[14])
	default:
		return -2
	}
	e4, e6 := ipsOf(v)
	if want4 && !sameAddrs(v4, e4) || want6 && !sameAddrs(v6, e6) {
		return -2
	}
	return v
}

type builder struct {
	rs   *ruleSet
	rng  *rand.Rand
	dir  string
	st   *stats
	errs []finding
}

func (b *builder) loadErr(tgt string, err error, text any) {
	b.errs = append(b.errs, finding{
		Key:  tgt + "-load-error",
		What: fmt.Sprintf("%s: a valid rule set was rejected while loading: %v", tgt, err),
		Case: map[string]any{"set": b.rs, "target": tgt, "input": text, "error": err.Error()},
	})
}

func (b *builder) tmpFile(name, content string) string {
	p := filepath.Join(b.dir, name)
	if err := os.WriteFile(p, []byte(content), 0o644); err != nil {
		panic(err)
	}
	return p
}

func (b *builder) build() []target {
	rs := b.rs
	var ts []target
	present := 0
	for _, r := range rs.Rules {
		present |= typeBit(r.Typ)
	}

	// 1. MixMatcher[int].Add, unique value per rule
	{
		m := domain.NewMixMatcher[int]()
		if rs.Default != "" {
			m.SetDefaultMatcher(rs.Default)
		}
		ok := true
		for _, r := range rs.Rules {
			if err := m.Add(r.text(rs.Default), r.Val); err != nil {
				b.loadErr("mix", err, r.text(rs.Default))
				ok = false
				break
			}
		}
		if ok {
			ts = append(ts, target{"mix", mAll, func(n string, _ int) (int, bool) { return m.Match(n) }})
			// the sub-matchers as reachable through the mix matcher
			for _, t := range allTypes {
				if present&typeBit(t) == 0 {
					continue
				}
				sm := m.GetSubMatcher(t)
				ts = append(ts, target{"mixsub-" + t, typeBit(t), func(n string, _ int) (int, bool) { return sm.Match(n) }})
			}
		}
	}

	// 2. every sub-matcher on its own
	for _, t := range allTypes {
		if present&typeBit(t) == 0 {
			continue
		}
		var m domain.WriteableMatcher[int]
		switch t {
		case tFull:
			m = domain.NewFullMatcher[int]()
		case tDomain:
			m = domain.NewSubDomainMatcher[int]()
		case tKeyword:
			m = domain.NewKeywordMatcher[int]()
		case tRegexp:
			m = domain.NewRegexMatcher[int]()
		}
		ok := true
		for _, r := range rs.Rules {
			if r.Typ != t {
				continue
			}
			if err := m.Add(r.Pat, r.Val); err != nil {
				b.loadErr("sub-"+t, err, r.Pat)
				ok = false
				break
			}
		}
		if ok {
			ts = append(ts, target{"sub-" + t, typeBit(t), func(n string, _ int) (int, bool) { return m.Match(n) }})
		}
	}

	// 3. text loader with values
	{
		m := domain.NewMixMatcher[int]()
		if rs.Default != "" {
			m.SetDefaultMatcher(rs.Default)
		}
		text := render(b.rng, rs, rs.Rules, rs.Default, func(r rule) string { return strconv.Itoa(r.Val) }, b.st)
		parse := func(s string) (string, int, error) {
			f := strings.Fields(s)
			if len(f) != 2 {
				return "", 0, fmt.Errorf("want 2 sections, got %d in %q", len(f), s)
			}
			v, err := strconv.Atoi(f[1])
			return f[0], v, err
		}
		if err := domain.LoadFromTextReader[int](m, strings.NewReader(text), parse); err != nil {
			b.loadErr("loader", err, text)
		} else {
			ts = append(ts, target{"loader", mAll, func(n string, _ int) (int, bool) { return m.Match(n) }})
		}
	}

	// 4. text loader without values (nil parse function), struct{} matcher
	{
		m := domain.NewMixMatcher[struct{}]()
		if rs.Default != "" {
			m.SetDefaultMatcher(rs.Default)
		}
		text := render(b.rng, rs, rs.Rules, rs.Default, func(rule) string { return "" }, b.st)
		if err := domain.LoadFromTextReader[struct{}](m, strings.NewReader(text), nil); err != nil {
			b.loadErr("loader-novalue", err, text)
		} else {
			ts = append(ts, target{"loader-novalue", mAll, func(n string, _ int) (int, bool) { _, ok := m.Match(n); return -1, ok }})
		}
	}

	// 5. domain_set plugin: exps + file + a nested set (default type: domain)
	{
		var exps, file, sub []rule
		for _, r := range rs.Rules {
			switch b.rng.Intn(3) {
			case 0:
				exps = append(exps, r)
			case 1:
				file = append(file, r)
			default:
				sub = append(sub, r)
			}
		}
		texts := func(rs []rule) (o []string) {
			for _, r := range rs {
				o = append(o, r.text(tDomain))
			}
			return
		}
		plugins := map[string]any{}
		mos := coremain.NewTestMosdnsWithPlugins(plugins)
		ok := true
		args := &domain_set.Args{Exps: texts(exps)}
		if len(sub) > 0 || b.rng.Intn(4) == 0 {
			subDS, err := domain_set.NewDomainSet(coremain.NewBP("sub", mos), &domain_set.Args{Exps: texts(sub)})
			if err != nil {
				b.loadErr("domainset", err, texts(sub))
				ok = false
			}
			plugins["sub"] = subDS
			args.Sets = []string{"sub"}
			b.st.add("domainset_nested_sets", 1)
		}
		var ftext string
		if len(file) > 0 || b.rng.Intn(4) == 0 {
			ftext = render(b.rng, rs, file, tDomain, func(rule) string { return "" }, b.st)
			args.Files = []string{b.tmpFile("ds.txt", ftext)}
			b.st.add("domainset_files", 1)
		}
		if ok {
			ds, err := domain_set.NewDomainSet(coremain.NewBP("ds", mos), args)
			if err != nil {
				b.loadErr("domainset", err, map[string]any{"exps": args.Exps, "file": ftext, "sub_exps": texts(sub)})
			} else {
				m := ds.GetDomainMatcher()
				ts = append(ts, target{"domainset", mAll, func(n string, _ int) (int, bool) { _, ok := m.Match(n); return -1, ok }})
			}
		}
	}

	// 6. pkg/hosts: Lookup over a matcher loaded with hosts.ParseIPs (default type: full)
	ipText := func(r rule) string {
		v4, v6 := ipsOf(r.Val)
		var f []string
		for _, a := range v4 {
			f = append(f, a.String())
		}
		// the IPv6 address goes to a random position; the order inside a family is kept
		at := b.rng.Intn(len(f) + 1)
		f = append(f[:at], append([]string{v6[0].String()}, f[at:]...)...)
		return strings.Join(f, []string{" ", "\t", "  "}[b.rng.Intn(3)])
	}
	{
		m := domain.NewMixMatcher[*hosts.IPs]()
		m.SetDefaultMatcher(domain.MatcherFull)
		text := render(b.rng, rs, rs.Rules, tFull, ipText, b.st)
		if err := domain.LoadFromTextReader[*hosts.IPs](m, strings.NewReader(text), hosts.ParseIPs); err != nil {
			b.loadErr("hosts-lookup", err, text)
		} else {
			h := hosts.NewHosts(m)
			ts = append(ts, target{"hosts-lookup", mAll, func(n string, _ int) (int, bool) {
				v4, v6 := h.Lookup(n)
				if len(v4)+len(v6) == 0 {
					return 0, false
				}
				return decodeIPs(v4, v6, true, true), true
			}})
		}
	}

	// 7. hosts plugin constructor (entries + file) -> LookupMsg (A / AAAA questions)
	{
		var entries []string
		var file []rule
		for _, r := range rs.Rules {
			if b.rng.Intn(2) == 0 {
				entries = append(entries, r.text(tFull)+" "+ipText(r))
			} else {
				file = append(file, r)
			}
		}
		args := &hostsplugin.Args{Entries: entries}
		var ftext string
		if len(file) > 0 {
			ftext = render(b.rng, rs, file, tFull, ipText, b.st)
			args.Files = []string{b.tmpFile("hosts.txt", ftext)}
		}
		hp, err := hostsplugin.NewHosts(args)
		if err != nil {
			b.loadErr("hosts-msg", err, map[string]any{"entries": entries, "file": ftext})
		} else {
			ts = append(ts, target{"hosts-msg", mAll, func(n string, i int) (int, bool) {
				q := new(dns.Msg)
				qt := dns.TypeA
				if i%2 == 1 {
					qt = dns.TypeAAAA
				}
				q.Id = uint16(i)
				q.Question = []dns.Question{{Name: n, Qtype: qt, Qclass: dns.ClassINET}}
				r := hp.Response(q)
				if r == nil {
					return 0, false
				}
				var v4, v6 []netip.Addr
				for _, rr := range r.Answer {
					if rr.Header().Name != n {
						return -2, true
					}
					switch a := rr.(type) {
					case *dns.A:
						ip, _ := netip.AddrFromSlice(a.A)
						v4 = append(v4, ip)
					case *dns.AAAA:
						ip, _ := netip.AddrFromSlice(a.AAAA)
						v6 = append(v6, ip)
					}
				}
				return decodeIPs(v4, v6, qt == dns.TypeA, qt == dns.TypeAAAA), true
			}})
		}
	}

	// 8. redirect plugin: the value is the name the rest of the chain sees
	{
		var rules []string
		for _, r := range rs.Rules {
			rules = append(rules, r.text(tFull)+[]string{" ", "\t"}[b.rng.Intn(2)]+"v"+strconv.Itoa(r.Val)+".tgt")
		}
		rp, err := redirect.NewRedirect(&redirect.Args{Rules: rules})
		if err != nil {
			b.loadErr("redirect", err, rules)
		} else {
			ts = append(ts, target{"redirect", mAll, func(n string, i int) (int, bool) {
				q := new(dns.Msg)
				q.Question = []dns.Question{{Name: n, Qtype: dns.TypeA, Qclass: dns.ClassINET}}
				qc := query_context.NewContext(q)
				seen := ""
				next := sequence.NewChainWalker([]*sequence.ChainNode{{E: sequence.ExecutableFunc(func(_ context.Context, c *query_context.Context) error {
					seen = c.Q().Question[0].Name
					return nil
				})}}, nil)
				if err := rp.Exec(context.Background(), qc, next); err != nil {
					return -2, true
				}
				if seen == n {
					return 0, false
				}
				if strings.HasPrefix(seen, "v") && strings.HasSuffix(seen, ".tgt.") {
					if v, err := strconv.Atoi(seen[1 : len(seen)-5]); err == nil {
						return v, true
					}
				}
				return -2, true
			}})
		}
	}
	return ts
}

// ---------------------------------------------------------------- judging

type stats struct {
	c  map[string]int64
	fp map[string]struct{}

	wantSample bool // composed phases: the next case leaves a written-out sample here
	sample     any
}

func newStats() *stats                 { return &stats{c: map[string]int64{}, fp: map[string]struct{}{}} }
func (s *stats) add(k string, n int64) { s.c[k] += n }

func hasUpper(s string) bool {
	for i := 0; i < len(s); i++ {
		if 'A' <= s[i] && s[i] <= 'Z' {
			return true
		}
	}
	return false
}

func maskNames(m int) string {
	var p []string
	for _, t := range allTypes {
		if m&typeBit(t) != 0 {
			p = append(p, t)
		}
	}
	if len(p) == 0 {
		return "none"
	}
	return strings.Join(p, "+")
}

func canonical(rs *ruleSet) string {
	var b strings.Builder
	b.WriteString(rs.Default)
	for _, r := range rs.Rules {
		b.WriteString("|" + r.Typ + ":" + r.Pat)
	}
	return b.String()
}

// checkSet builds every target for one rule set, probes them and returns the
// findings (first per key) plus an optional written-out sample.
func checkSet(rs *ruleSet, nProbes int, extra []string, dir string, st *stats, wantSample bool) ([]finding, any) {
	rng := rand.New(rand.NewSource(rs.Seed ^ 0x5eed))
	ref := newRefSet(rs)
	b := &builder{rs: rs, rng: rng, dir: dir, st: st}
	targets := b.build()
	names := probeNames(rng, rs, nProbes, extra)

	// a rejected rule set: report at the most basic route(s) only (see below)
	var findings []finding
	minErr := 99
	for _, f := range b.errs {
		minErr = min(minErr, routeLevel(f.Case["target"].(string)))
	}
	for _, f := range b.errs {
		if routeLevel(f.Case["target"].(string)) == minErr {
			findings = append(findings, f)
		}
	}
	seenKey := map[string]bool{}
	for _, f := range findings {
		seenKey[f.Key] = true
	}

	st.add("rule_sets", 1)
	st.add("rules", int64(len(rs.Rules)))
	st.add("probe_names", int64(len(names)))
	for _, r := range rs.Rules {
		st.add("rules_"+r.Typ, 1)
		if r.Typ != tRegexp {
			if hasUpper(r.Pat) {
				st.add("rules_with_upper_case", 1)
			}
			if strings.HasSuffix(r.Pat, ".") {
				st.add("rules_with_trailing_dot", 1)
			}
		}
		if r.text(rs.Default) == r.Pat {
			st.add("rules_without_prefix(default type)", 1)
		}
	}
	{
		seen := map[string]bool{}
		for _, r := range ref.rules {
			k := r.typ + ":" + r.norm
			if r.typ == tRegexp {
				k += r.re.String()
			}
			if seen[k] {
				st.add("duplicate_rules(different values)", 1)
			}
			seen[k] = true
		}
	}

	h := fnv.New64a()
	h.Write([]byte(canonical(rs)))
	setID := strconv.FormatUint(h.Sum64(), 36)

	var sampleProbes []map[string]any
	evals := make([]int64, len(targets))
	outs := map[int]refOut{}
	for i, name := range names {
		for k := range outs {
			delete(outs, k)
		}
		full := ref.eval(name, mAll)
		outs[mAll] = full

		// evidence about the probe
		if hasUpper(name) {
			st.add("probes_with_upper_case", 1)
		}
		if strings.HasSuffix(name, ".") {
			st.add("probes_with_trailing_dot", 1)
		}
		if full.Match {
			st.add("probes_matching", 1)
			st.add("expected_decided_by_"+full.Winner, 1)
			if full.Mask&(full.Mask-1) != 0 {
				st.add("probes_matched_by_several_types", 1)
				st.add("types_matching:"+maskNames(full.Mask), 1)
			}
			if full.Winner == tDomain && full.DomDepths >= 2 {
				st.add("probes_with_shadowed_domain_rule(deeper wins)", 1)
			}
			if len(full.Allowed) > 1 {
				st.add("probes_with_open_choice(several allowed values)", 1)
			}
		} else {
			st.add("probes_not_matching", 1)
		}
		if full.NearMiss != "" {
			st.add("near_miss:"+full.NearMiss, 1)
		}
		if full.Match || full.NearMiss != "" {
			st.fp[setID+"|"+strconv.Itoa(full.Mask)+"|"+full.Winner+"|"+strconv.Itoa(min(full.DomDepths, 3))+"|"+full.NearMiss] = struct{}{}
		}

		var firstGot map[string]any
		if wantSample && len(sampleProbes) < 6 && (full.Match || full.NearMiss != "") {
			firstGot = map[string]any{}
		}
		minLevel := 99
		var pending []mismatch
		for ti, t := range targets {
			exp, ok := outs[t.mask]
			if !ok {
				exp = ref.eval(name, t.mask)
				outs[t.mask] = exp
			}
			v, got := t.fn(name, i)
			evals[ti]++
			if firstGot != nil {
				if got && v >= 0 {
					firstGot[t.name] = v
				} else {
					firstGot[t.name] = got
				}
			}
			key := mismatchKey(ref, t.name, name, exp, v, got)
			if key != "" {
				st.add("mismatches", 1)
				lv := routeLevel(t.name)
				if lv < minLevel {
					minLevel = lv
					pending = pending[:0]
				}
				if lv == minLevel {
					pending = append(pending, mismatch{key, t.name, exp, v, got})
				}
			}
		}
		// One defect shows on every route built on the broken code: attribute the
		// mismatches of this probe to the most basic route(s) that exhibit one.
		for _, m := range pending {
			if !seenKey[m.key] {
				seenKey[m.key] = true
				findings = append(findings, finding{Key: m.key, What: m.describe(ref, name), Case: map[string]any{
					"set": rs, "rules_as_written": ruleTexts(rs), "target": m.route, "name": name, "normalised_name": refNorm(name),
					"expected": m.exp, "got_match": m.got, "got_value": m.v,
				}})
			}
		}
		if firstGot != nil {
			sampleProbes = append(sampleProbes, map[string]any{"name": name, "expected": full, "observed_per_route": firstGot})
		}
	}
	for ti, t := range targets {
		st.add("evaluations", evals[ti])
		st.add("evaluations:"+t.name, evals[ti])
	}
	// multi-plugin topologies; their mismatches are reported only if no simpler
	// route of this rule set already disagrees with the reference
	dagFindings := checkDAG(rs, b, nProbes, extra, st)
	if len(findings) == 0 {
		findings = dagFindings
	} else {
		// same principle for the whole rule set: keep the findings of the most basic route
		lvl := 99
		for _, f := range findings {
			lvl = min(lvl, routeLevel(f.Case["target"].(string)))
		}
		kept := findings[:0]
		for _, f := range findings {
			if routeLevel(f.Case["target"].(string)) == lvl {
				kept = append(kept, f)
			}
		}
		findings = kept
	}
	var sample any
	if wantSample {
		sample = map[string]any{"default_type": rs.Default, "rules_as_written": ruleTexts(rs), "probes(first few non-trivial)": sampleProbes, "routes": targetNames(targets), "probe_count": len(names)}
	}
	return findings, sample
}

type mismatch struct {
	key, route string
	exp        refOut
	v          int
	got        bool
}

// gotType names the type of the rule whose value was returned.
func gotType(ref *refSet, name string, v int) string {
	if r := ref.byVal[v]; r != nil {
		if !r.describes(refNorm(name)) {
			return r.typ + "(not-describing)"
		}
		return r.typ
	}
	if v == decoyVal {
		return "commented-out-rule"
	}
	return "no-rule"
}

// mismatchKey returns "" if the observation is allowed by the reference,
// else the class of the disagreement.
func mismatchKey(ref *refSet, route, name string, exp refOut, v int, got bool) string {
	switch {
	case exp.Match && !got:
		return route + "-false-negative-" + exp.Winner
	case !exp.Match && got:
		nm := exp.NearMiss
		if nm != "nonboundary-suffix" && nm != "subdomain-of-full" {
			nm = "other"
		}
		return route + "-false-positive-" + nm
	case exp.Match && got && v != -1 && !exp.allows(v):
		return route + "-wrong-value-want-" + exp.Winner + "-got-" + strings.TrimSuffix(gotType(ref, name, v), "(not-describing)")
	}
	return ""
}

func (m mismatch) describe(ref *refSet, name string) string {
	switch {
	case m.exp.Match && !m.got:
		return fmt.Sprintf("%s: name %q is described by a %s rule (allowed values %v) but was not matched", m.route, name, m.exp.Winner, m.exp.Allowed)
	case !m.exp.Match && m.got:
		return fmt.Sprintf("%s: name %q is described by no rule but was matched (value %d, near miss class: %q)", m.route, name, m.v, m.exp.NearMiss)
	}
	return fmt.Sprintf("%s: name %q must get the value of the %s match (one of %v) but got %d (a %s rule)", m.route, name, m.exp.Winner, m.exp.Allowed, m.v, gotType(ref, name, m.v))
}

// routeLevel orders the routes from the most basic code to the most composed.
func routeLevel(name string) int {
	switch {
	case strings.HasPrefix(name, "sub-"):
		return 0
	case strings.HasPrefix(name, "mixsub-"):
		return 1
	case name == "mix":
		return 2
	case strings.HasPrefix(name, "loader"):
		return 3
	}
	return 4
}

// sampleWorthy: small sets with at least three rule types make readable samples.
func sampleWorthy(rs *ruleSet) bool {
	m := 0
	for _, r := range rs.Rules {
		m |= typeBit(r.Typ)
	}
	return len(rs.Rules) >= 3 && len(rs.Rules) <= 8 && m&(m-1) != 0 && (m&(m-1))&((m&(m-1))-1) != 0
}

func ruleTexts(rs *ruleSet) []string {
	var o []string
	for _, r := range rs.Rules {
		o = append(o, fmt.Sprintf("%s => %d", r.text(rs.Default), r.Val))
	}
	return o
}

func targetNames(ts []target) []string {
	var o []string
	for _, t := range ts {
		o = append(o, t.name)
	}
	return o
}

// ---------------------------------------------------------------- driver

func main() {
	rep = evid.New("C12", "exploration")
	rep.SetRule("case = (rule set, probe name, route); rule sets: 1-10 (sometimes up to 41) rules of the four types over the label alphabet {a b ab ba a-b xn--a com c}, derived from 1-3 pool names (itself, suffixes, +label, glued/unglued first char), random case, optional trailing dot, duplicates with other values, random default type and prefix omission; regexps from a small RE2-safe grammar; probe names = every rule +/- one label, +/- one char, one char replaced, in random case with/without trailing dot, plus random names; routes = MixMatcher.Add, its sub-matchers, standalone sub-matchers, text loader with/without values, domain_set plugin (exps+file+nested set), hosts Lookup, hosts plugin LookupMsg, redirect plugin, and per rule set one random DAG of 3-11 domain_set plugins (own exps/files or sets only, 1-8 included sets, shared included sets) built in dependency order and probed only after all are built, each against the union of its own and transitively included rules. non-trivial = at least one rule describes the name or the name is a near miss (non-boundary suffix, parent of a rule, subdomain of a full rule, rule is a prefix); distinct = (rule set, set of matching types, deciding type, number of matching domain depths, near-miss class), plus (topology, plugin) for every plugin that includes other sets. CONFIG PHASE: case = one configuration document (YAML written by an own emitter, JSON, or the decoded map) read by coremain.NewMosdns (viper include + plugin args decoder) with 1-3 domain_set plugins (exps/files/sets), hosts (entries/files), redirect (rules/files) and a sequence whose rule is a 'qname exp.. $set &file' matcher; every list option in a random spelling (block list, flow list, or one element as a bare scalar; scalars plain / single quoted / double quoted with escapes / literal block; omitted / null / [] when empty); 6-15 rules, regular expressions mostly from a grammar with counted repetitions {m,n}, classes and optional atoms containing , : # space { } [ ] quotes backslash & * ! | > % @; tags and file names with such characters; every plugin probed against the reference over exactly the rules written for it (own + included sets); non-trivial = (document, plugin, deciding type). SOURCE PHASE: case = a rule set written as text whose lines are made long (classes around 4/8/16/32 KiB, 65534..65538, up to 200 KB) by comments, trailing comments, leading/trailing/inner blanks, blank-only lines, a long regexp or literal rule, or which has thousands of short lines; LF / CRLF / CR CR LF ends, last line with/without terminator, bare CR inside comments, bare-CR files; loaded by LoadFromTextReader with and without values through readers that deliver it whole, in chunks (1..100000 bytes, empty reads, data+EOF) or fail with a non-EOF error at a line start / random offset / instead of EOF, and through the file options of domain_set, hosts, redirect and qname; verdict: refused (only allowed if the reader failed or a line has >= 65535 bytes) or answers every probe like the reference over ALL rules of the source; non-trivial = (source, route, outcome). CONCURRENT PHASE: case = one generated rule set loaded through every basic route (MixMatcher[int], sub-matchers, text loader with/without values, domain_set plugin, hosts Lookup, hosts plugin, redirect plugin); per route ONE instance is asked serially and then by 8 goroutines released together from a barrier, each looking up its own shuffled window (>= half) of the same ~130 names (mostly mixed/upper case, with/without trailing dot, names of up to 253 bytes, names decided by each rule type and names no rule describes) 3 times; every concurrent answer must be allowed by the reference for the name asked; overlap is counted with an in-flight counter (no clock, no race detector); non-trivial = (rule set, route, deciding types) of instances that saw overlapping lookups with both outcomes expected")
	rep.Assume("Go's regexp package is the definition of 'match by Go regular expression' (used by the reference, on the normalised name, with the expression exactly as written)")
	rep.Assume("generated rules and names are ASCII; lower-casing in the reference is ASCII lower-casing")
	rep.Assume("empty patterns ('domain:.', 'keyword:.') and names with empty labels are outside the quantified space and not generated; unprefixed rules never contain ':'")

	rep.Assume("config phase: gopkg.in/yaml.v3 (the parser viper uses) defines what a YAML document means; every generated document is parsed back with it and compared with the intended tree before mosdns sees it")
	rep.Assume("source phase: a rule source is a sequence of LF-terminated lines (a CR before the LF and any blanks around a rule are not part of it, text after '#' is a comment); a source whose longest line has >= 65535 bytes may be refused as a whole, every other valid source read without error must load; a bare-CR file that is not a rule source under these semantics is not judged when accepted")

	// rule files for the plugin routes; inside the driver's scratch dir if there is one
	dir, err := os.MkdirTemp(os.Getenv("VERIF_TMP"), "c12-")
	if err != nil {
		fmt.Println("cannot create temp dir:", err)
		os.Exit(3)
	}
	cleanup := func() { os.RemoveAll(dir) }

	if rep.ReplayFile != "" {
		var c struct {
			Set      ruleSet `json:"set"`
			Name     string  `json:"name"`
			Phase    string  `json:"phase"`
			CaseSeed int64   `json:"case_seed"`
		}
		if err := rep.LoadReplay(&c); err != nil {
			fmt.Println("cannot load replay:", err)
			cleanup()
			os.Exit(3)
		}
		st := newStats()
		if c.Phase == "concurrent" {
			// schedule dependent: repeat until the mismatch shows again
			o := &phaseOut{best: map[string]*phaseWitness{}}
			for i := 0; i < 50 && len(o.best) == 0; i++ {
				fs, bug := runGuarded(runConcCase, c.CaseSeed, dir, st)
				o.bug = bug
				for _, f := range fs {
					o.best[f.Key] = &phaseWitness{f: f, n: 1}
				}
			}
			o.reportConc()
			rep.Eval(int(st.c["evaluations"]))
			for k := range st.fp {
				rep.Nontrivial(k)
			}
			cleanup()
			rep.Finish()
		}
		if c.Phase == "config" || c.Phase == "source" {
			run := runCfgCase
			if c.Phase == "source" {
				run = runSrcCase
			}
			fs, bug := runGuarded(run, c.CaseSeed, dir, st)
			o := &phaseOut{best: map[string]*phaseWitness{}, bug: bug}
			for _, f := range fs {
				o.best[f.Key] = &phaseWitness{f: f, n: 1}
			}
			o.report(c.Phase)
			rep.Eval(int(st.c["evaluations"]))
			for k := range st.fp {
				rep.Nontrivial(k)
			}
			cleanup()
			rep.Finish()
		}
		var extra []string
		if c.Name != "" {
			extra = []string{c.Name}
		}
		fs, _ := checkSet(&c.Set, 300, extra, dir, st, false)
		for _, f := range fs {
			rep.Violation(f.Key, f.What, f.Case)
		}
		rep.Eval(int(st.c["evaluations"]))
		for k := range st.fp {
			rep.Nontrivial(k)
		}
		cleanup()
		rep.Finish()
	}

	t0 := time.Now()
	nSets := rep.Pick(16000, 600000)
	nProbes := rep.Pick(150, 200)
	master := rand.New(rand.NewSource(rep.Seed))
	seeds := make([]int64, nSets)
	for i := range seeds {
		seeds[i] = master.Int63()
	}

	workers := runtime.NumCPU()
	if workers > 16 {
		workers = 16
	}
	// per violation key: the witness from the rule set with the smallest index
	// (deterministic whatever the goroutine schedule) and the number of sets showing it
	type witness struct {
		idx int
		f   finding
		n   int
	}
	var (
		mu      sync.Mutex
		best    = map[string]*witness{}
		samples = map[int]any{}
		wg      sync.WaitGroup
		next    int
		nmu     sync.Mutex
	)
	const chunk = 64
	allStats := make([]*stats, workers)
	for w := 0; w < workers; w++ {
		st := newStats()
		allStats[w] = st
		wdir := filepath.Join(dir, strconv.Itoa(w))
		if err := os.Mkdir(wdir, 0o755); err != nil {
			fmt.Println("cannot create temp dir:", err)
			cleanup()
			os.Exit(3)
		}
		wg.Add(1)
		go func() {
			defer wg.Done()
			for {
				nmu.Lock()
				lo := next
				next += chunk
				nmu.Unlock()
				if lo >= nSets {
					return
				}
				hi := min(lo+chunk, nSets)
				for i := lo; i < hi; i++ {
					rs := genRuleSet(seeds[i])
					fs, sample := checkSet(rs, nProbes, nil, wdir, st, i < 400 && sampleWorthy(rs))
					if len(fs) > 0 || sample != nil {
						mu.Lock()
						for _, f := range fs {
							w := best[f.Key]
							if w == nil {
								w = &witness{idx: i, f: f}
								best[f.Key] = w
							} else if i < w.idx {
								w.idx, w.f = i, f
							}
							w.n++
						}
						if sample != nil {
							samples[i] = sample
						}
						mu.Unlock()
					}
				}
				// keep the per-worker fingerprint set small: flush it
				for k := range st.fp {
					rep.Nontrivial(k)
					delete(st.fp, k)
				}
			}
		}()
	}
	wg.Wait()
	tBase := time.Since(t0)

	// composed routes: configuration documents and rule sources (cfg.go, src.go)
	cfgOut := runPhase("cfg", rep.Pick(6000, 80000), rep.Seed^0x636667, workers, dir, runCfgCase)
	tCfg := time.Since(t0) - tBase
	srcOut := runPhase("src", rep.Pick(3000, 30000), rep.Seed^0x737263, workers, dir, runSrcCase)
	tSrc := time.Since(t0) - tBase - tCfg
	// concurrent lookups on shared instances (conc.go); few cases at a time, each runs concG goroutines
	concOut := runPhase("conc", rep.Pick(300, 6000), rep.Seed^0x636f6e, max(1, workers/concG), dir, runConcCase)
	rep.Extra("concurrent_phase_sample", concOut.sample)
	rep.Extra("config_phase_sample", cfgOut.sample)
	rep.Extra("source_phase_sample", srcOut.sample)
	rep.Extra("phase_wall_seconds", map[string]float64{"basic_routes": tBase.Seconds(), "config_documents": tCfg.Seconds(), "rule_sources": tSrc.Seconds(), "concurrent_lookups": (time.Since(t0) - tBase - tCfg - tSrc).Seconds()})
	cleanup()

	var ws []*witness
	for _, w := range best {
		ws = append(ws, w)
	}
	sort.Slice(ws, func(i, j int) bool {
		if ws[i].idx != ws[j].idx {
			return ws[i].idx < ws[j].idx
		}
		return ws[i].f.Key < ws[j].f.Key
	})
	for _, w := range ws {
		w.f.Case["set_index"] = w.idx
		w.f.Case["rule_sets_showing_this_key"] = w.n
		for k := 0; k < w.n; k++ {
			rep.Violation(w.f.Key, w.f.What, w.f.Case)
		}
	}
	// One defect in the basic code shows on every route built on it: the composed
	// phases report their mismatches only if the basic routes agree with the reference.
	if len(ws) == 0 {
		cfgOut.report("config")
		srcOut.report("source")
		concOut.reportConc()
	} else {
		rep.Extra("composed_phase_keys_not_reported(basic routes already disagree)", len(cfgOut.best)+len(srcOut.best)+len(concOut.best))
	}
	tot := map[string]int64{}
	for _, st := range allStats {
		for k, v := range st.c {
			tot[k] += v
		}
	}
	for _, o := range []*phaseOut{cfgOut, srcOut, concOut} {
		for k, v := range o.tot {
			tot[k] += v
		}
	}
	rep.Eval(int(tot["evaluations"]))
	delete(tot, "evaluations")
	for k, v := range tot {
		rep.Count(k, v)
	}
	for i := 0; i < 400; i++ {
		if s, ok := samples[i]; ok {
			rep.Sample(s)
		}
	}
	// the monitor must have seen the situations the property is about
	for _, need := range []string{
		"probes_matching", "probes_not_matching", "probes_matched_by_several_types",
		"probes_with_shadowed_domain_rule(deeper wins)", "near_miss:nonboundary-suffix",
		"expected_decided_by_full", "expected_decided_by_domain", "expected_decided_by_regexp", "expected_decided_by_keyword",
		"probes_with_upper_case", "probes_with_trailing_dot", "rules_with_upper_case", "rules_with_trailing_dot",
		"rules_without_prefix(default type)", "loader_decoy_rules_in_comments",
		"evaluations:mix", "evaluations:loader", "evaluations:domainset", "evaluations:hosts-lookup", "evaluations:hosts-msg", "evaluations:redirect", "evaluations:domainset-dag",
		"dag_sets_included_by_several_plugins", "dag_plugins_made_of_sets_only", "dag_sets_only_plugins_listing_a_shared_set_first_then_another",
		// config phase
		"cfg_documents:yaml", "cfg_documents:json", "cfg_documents:decoded-map", "cfg_options_written_as_scalar", "cfg_scalar_options_containing_a_comma",
		"cfg_options_written_as_block-list", "cfg_options_written_as_flow-list", "cfg_scalar_style:plain", "cfg_scalar_style:single-quoted", "cfg_scalar_style:double-quoted", "cfg_scalar_style:literal-block",
		"cfg_rules_containing_comma", "cfg_rules_containing_space", "cfg_rules_containing_hash", "cfg_rules_containing_brace", "cfg_rules_containing_inner_colon", "cfg_probes_matching",
		"evaluations:cfg-domain_set", "evaluations:cfg-hosts", "evaluations:cfg-redirect", "evaluations:cfg-sequence",
		// source phase
		"src_attempts_with_a_line_of_64KiB_or_more",
		"src_reader:chunked", "src_reader:failing", "src_shape:one-line-over-64KiB", "src_shape:line-at-64KiB-edge", "src_shape:lines-around-4-32KiB", "src_shape:thousands-of-short-lines", "src_shape:cr-oddities",
		// concurrent phase
		"conc_overlapping_lookups(started while another lookup on the same instance was in flight; lower bound)", "conc_overlapping_lookups_of_names_with_upper_case",
		"conc_instances_with_overlap_and_both_outcomes_expected", "conc_names_with_upper_case", "conc_names_of_64_bytes_or_more",
		"evaluations:conc-mix", "evaluations:conc-loader", "evaluations:conc-loader-novalue", "evaluations:conc-domainset", "evaluations:conc-hosts-lookup", "evaluations:conc-hosts-msg", "evaluations:conc-redirect",
		"evaluations:src-loader", "evaluations:src-loader-novalue", "evaluations:src-domainset-file", "evaluations:src-hosts-file", "evaluations:src-redirect-file", "evaluations:src-qname-file",
	} {
		if tot[need] == 0 {
			rep.Inconclusive("monitor never observed %q", need)
		}
	}
	rep.Finish()
}
