package main

// Generators: rule sets over a tiny label alphabet (so that overlaps, nested
// suffixes, non-boundary suffixes, duplicates and shadowing are the norm), a
// small safe regular-expression grammar, and probe names derived from the rules.
// Nothing here imports mosdns.

import (
	"math/rand"
	"regexp"
	"strings"
)

const (
	tFull    = "full"
	tDomain  = "domain"
	tKeyword = "keyword"
	tRegexp  = "regexp"
)

var allTypes = []string{tFull, tDomain, tRegexp, tKeyword}

type rule struct {
	Typ  string `json:"type"`
	Pat  string `json:"pattern"` // as written in the rule (mixed case, optional trailing dot)
	Bare bool   `json:"bare"`    // written without "type:" prefix wherever the set's default type equals Typ
	Val  int    `json:"value"`   // unique per rule
	Ex   string `json:"example,omitempty"`
}

type ruleSet struct {
	Seed    int64    `json:"seed"`
	Default string   `json:"default_type"` // "" = no default (every rule prefixed)
	Pool    []string `json:"pool"`
	Rules   []rule   `json:"rules"`
}

// text renders the rule for a set whose default type is def.
func (r rule) text(def string) string {
	if r.Bare && r.Typ == def && !strings.Contains(r.Pat, ":") {
		return r.Pat
	}
	return r.Typ + ":" + r.Pat
}

var labelAlphabet = []string{"a", "b", "ab", "ba", "a-b", "xn--a", "com", "c"}

func pickLabel(rng *rand.Rand) string { return labelAlphabet[rng.Intn(len(labelAlphabet))] }

func randName(rng *rand.Rand, minL, maxL int) string {
	n := minL + rng.Intn(maxL-minL+1)
	ls := make([]string, n)
	for i := range ls {
		ls[i] = pickLabel(rng)
	}
	return strings.Join(ls, ".")
}

func upperASCII(s string) string {
	b := []byte(s)
	for i, c := range b {
		if 'a' <= c && c <= 'z' {
			b[i] = c - 32
		}
	}
	return string(b)
}

func mixCase(rng *rand.Rand, s string) string {
	b := []byte(s)
	for i, c := range b {
		if 'a' <= c && c <= 'z' && rng.Intn(2) == 0 {
			b[i] = c - 32
		}
	}
	return string(b)
}

// spell returns s in a random spelling: case and trailing dot.
func spell(rng *rand.Rand, s string, pPlain int) string {
	if rng.Intn(100) < pPlain {
		return s
	}
	switch rng.Intn(5) {
	case 0:
		s = upperASCII(s)
	case 1, 2:
		s = mixCase(rng, s)
	}
	if rng.Intn(2) == 0 {
		s += "."
	}
	return s
}

// validName: non-empty labels of [a-z0-9_-] (any case), optionally one trailing dot.
func validName(s string) bool {
	if strings.HasSuffix(s, ".") {
		s = s[:len(s)-1]
	}
	if s == "" || len(s) > 253 {
		return false
	}
	ll := 0
	for i := 0; i < len(s); i++ {
		c := s[i]
		switch {
		case c == '.':
			if ll == 0 {
				return false
			}
			ll = 0
		case 'a' <= c && c <= 'z', 'A' <= c && c <= 'Z', '0' <= c && c <= '9', c == '-', c == '_':
			ll++
			if ll > 63 {
				return false
			}
		default:
			return false
		}
	}
	return ll > 0
}

func labelsOf(s string) []string { return strings.Split(s, ".") }

// deriveRule makes a rule pattern related to base.
func deriveRule(rng *rand.Rand, base string) string {
	ls := labelsOf(base)
	switch rng.Intn(10) {
	case 0, 1:
		return base
	case 2, 3:
		if len(ls) > 1 {
			k := 1 + rng.Intn(len(ls)-1)
			return strings.Join(ls[k:], ".")
		}
		return base
	case 4:
		return pickLabel(rng) + "." + base
	case 5:
		return string("ab-"[rng.Intn(2)]) + base // glued: b.com -> ab.com
	case 6:
		if len(ls[0]) > 1 {
			return base[1:] // ab.com -> b.com
		}
		return base
	case 7:
		return base + "." + pickLabel(rng)
	case 8:
		return ls[len(ls)-1]
	default:
		return randName(rng, 1, 3)
	}
}

type typeWeights [4]int // full, domain, regexp, keyword

var profiles = []typeWeights{
	{2, 4, 1, 1}, {2, 4, 1, 1}, {2, 4, 1, 1}, {1, 1, 1, 1}, {1, 1, 1, 1},
	{0, 1, 0, 0}, {1, 0, 0, 0}, {0, 0, 0, 1}, {0, 0, 1, 0},
	{0, 0, 1, 1}, {0, 0, 1, 1}, {1, 1, 0, 0}, {0, 2, 1, 1}, {1, 0, 1, 1}, {0, 1, 0, 1}, {0, 1, 1, 0},
}

func (w typeWeights) pick(rng *rand.Rand) string {
	tot := w[0] + w[1] + w[2] + w[3]
	x := rng.Intn(tot)
	for i, t := range allTypes {
		if x < w[i] {
			return t
		}
		x -= w[i]
	}
	return tDomain
}

func genKeyword(rng *rand.Rand, pool []string) string {
	for {
		var k string
		switch rng.Intn(7) {
		case 0, 1, 2:
			p := pool[rng.Intn(len(pool))]
			i := rng.Intn(len(p))
			j := i + 1 + rng.Intn(4)
			if j > len(p) {
				j = len(p)
			}
			k = p[i:j]
		case 3:
			k = pickLabel(rng)
		case 4:
			k = "." + pickLabel(rng)
		case 5:
			k = pickLabel(rng) + "." // the trailing dot is stripped by normalisation
		default:
			k = []string{"-", "b.c", "a.", "--", "n-", ".a", "om"}[rng.Intn(7)]
		}
		if refNorm(k) == "" {
			continue
		}
		return k
	}
}

// genRegexp builds an expression from a small RE2-safe grammar together with a
// string that (usually) matches it.
func genRegexp(rng *rand.Rand, pool []string) (expr, example string) {
	for {
		var e, x strings.Builder
		if rng.Intn(12) == 0 {
			e.WriteString("(?i)")
		}
		anchL := rng.Intn(2) == 0
		if anchL {
			e.WriteString("^")
		} else if rng.Intn(2) == 0 {
			x.WriteString(pickLabel(rng) + ".")
		}
		n := 1 + rng.Intn(4)
		for i := 0; i < n; i++ {
			var ae, ax string
			single := false
			switch rng.Intn(14) {
			case 0, 1, 2:
				l := pickLabel(rng)
				ae, ax = regexp.QuoteMeta(l), l
			case 3:
				p := pool[rng.Intn(len(pool))]
				ae, ax = regexp.QuoteMeta(p), p
			case 4, 5:
				ae, ax, single = `\.`, ".", true
			case 6:
				ae, ax, single = ".", string("ab.-c"[rng.Intn(5)]), true
			case 7:
				ae, ax, single = "[ab]", string("ab"[rng.Intn(2)]), true
			case 8:
				ae, ax, single = "[^.]", string("abc-"[rng.Intn(4)]), true
			case 9:
				alts := [][]string{{"a", "ab"}, {"com", "c"}, {"b", "ba"}, {"a-b", "xn--a"}}[rng.Intn(4)]
				open := "("
				if rng.Intn(3) == 0 {
					open = "(?:"
				}
				ae, ax, single = open+alts[0]+"|"+regexp.QuoteMeta(alts[1])+")", alts[rng.Intn(2)], true
			case 10:
				ae, ax, single = "[a-c]", string("abc"[rng.Intn(3)]), true
			case 11:
				ae, ax, single = "[[:alpha:]]", string("abc"[rng.Intn(3)]), true
			case 12:
				ae, ax = ".*", []string{"", "a", ".b", "a.b", "-"}[rng.Intn(5)]
			default:
				// literals that the normalised (lower-case) name can never contain,
				// and classes whose meaning changes if the expression were lower-cased
				switch rng.Intn(3) {
				case 0:
					ae, ax = "A", "a"
				case 1:
					ae, ax, single = `\D`, string("ab."[rng.Intn(3)]), true
				default:
					ae, ax, single = "[^A-Z]", string("ab-"[rng.Intn(3)]), true
				}
			}
			if single {
				switch rng.Intn(6) {
				case 0:
					ae += "*"
					ax = strings.Repeat(ax, rng.Intn(3))
				case 1:
					ae += "+"
					ax = strings.Repeat(ax, 1+rng.Intn(2))
				case 2:
					ae += "?"
					if rng.Intn(2) == 0 {
						ax = ""
					}
				}
			}
			e.WriteString(ae)
			x.WriteString(ax)
		}
		switch rng.Intn(4) {
		case 0, 1:
			e.WriteString("$")
		case 2:
			x.WriteString("." + pickLabel(rng))
		}
		expr, example = e.String(), x.String()
		if strings.ContainsAny(expr, " \t#") {
			continue
		}
		if _, err := regexp.Compile(expr); err != nil {
			continue
		}
		return expr, example
	}
}

// fillRule gives r a fresh pattern of type typ related to the pool of rs.
func fillRule(rng *rand.Rand, rs *ruleSet, r *rule, typ string) {
	r.Typ = typ
	base := rs.Pool[rng.Intn(len(rs.Pool))]
	switch r.Typ {
	case tFull, tDomain:
		p := deriveRule(rng, base)
		if !validName(p) {
			p = base
		}
		r.Pat = spell(rng, p, 45)
	case tKeyword:
		k := genKeyword(rng, rs.Pool)
		r.Pat = k
		if rng.Intn(3) == 0 {
			r.Pat = mixCase(rng, k)
		}
	case tRegexp:
		r.Pat, r.Ex = genRegexp(rng, rs.Pool)
	}
}

func genRuleSet(seed int64) *ruleSet {
	rng := rand.New(rand.NewSource(seed))
	rs := &ruleSet{Seed: seed}
	if d := rng.Intn(5); d < 4 {
		rs.Default = allTypes[d]
	}
	np := 1 + rng.Intn(3)
	for i := 0; i < np; i++ {
		if rng.Intn(10) == 0 {
			rs.Pool = append(rs.Pool, randName(rng, 4, 7)) // deep names: boundaries and shadowing at depth
		} else {
			rs.Pool = append(rs.Pool, randName(rng, 1, 3))
		}
	}
	prof := profiles[rng.Intn(len(profiles))]
	n := 1 + rng.Intn(10)
	if rng.Intn(25) == 0 {
		n = 12 + rng.Intn(30)
	}
	for i := 0; i < n; i++ {
		r := rule{Val: i + 1, Bare: rng.Intn(10) < 6}
		if len(rs.Rules) > 0 && rng.Intn(7) == 0 {
			// duplicate of an earlier rule in another spelling, with its own value
			o := rs.Rules[rng.Intn(len(rs.Rules))]
			r.Typ, r.Pat, r.Ex = o.Typ, o.Pat, o.Ex
			if r.Typ != tRegexp {
				r.Pat = spell(rng, refNorm(r.Pat), 30)
			}
			rs.Rules = append(rs.Rules, r)
			continue
		}
		fillRule(rng, rs, &r, prof.pick(rng))
		rs.Rules = append(rs.Rules, r)
	}
	return rs
}

// probeNames derives names from the rules (the rule itself, +/- one label,
// +/- one character, other spellings) and adds random ones. Every name is a
// syntactically valid domain name. At most n are returned (plus extra).
func probeNames(rng *rand.Rand, rs *ruleSet, n int, extra []string) []string {
	var prio, rest []string
	addDerived := func(b string) {
		if b == "" {
			return
		}
		prio = append(prio, b, pickLabel(rng)+"."+b, string("ab"[rng.Intn(2)])+b)
		ls := labelsOf(b)
		rest = append(rest,
			pickLabel(rng)+"."+pickLabel(rng)+"."+b,
			"b"+b, "a"+b, "-"+b, "a-"+b,
			b+"."+pickLabel(rng), b+"a", b+"m",
			b[1:], b[:len(b)-1],
		)
		if len(ls) > 1 {
			rest = append(rest, strings.Join(ls[1:], "."), strings.Join(ls[:len(ls)-1], "."), ls[len(ls)-1])
		}
		if len(ls) > 2 {
			rest = append(rest, strings.Join(ls[2:], "."))
		}
		// replace / insert one character
		i := rng.Intn(len(b))
		c := string("ab.-c"[rng.Intn(5)])
		rest = append(rest, b[:i]+c+b[i+1:], b[:i]+c+b[i:])
	}
	for _, r := range rs.Rules {
		switch r.Typ {
		case tFull, tDomain:
			addDerived(refNorm(r.Pat))
		case tKeyword:
			k := refNorm(r.Pat)
			addDerived(k)
			a, b := pickLabel(rng), pickLabel(rng)
			prio = append(prio, a+k+b)
			rest = append(rest, a+"."+k, k+"."+b, a+k, k+b, a+"."+k+"."+b, strings.TrimPrefix(k, "."), strings.TrimSuffix(k, "."))
		case tRegexp:
			addDerived(refNorm(r.Ex))
			addDerived(strings.Trim(refNorm(r.Ex), ".-"))
		}
	}
	for _, p := range rs.Pool {
		addDerived(p)
	}
	seen := map[string]bool{}
	var out []string
	emit := func(s string) {
		if !validName(s) {
			return
		}
		s = spell(rng, refNorm(s), 40)
		if !seen[s] {
			seen[s] = true
			out = append(out, s)
		}
	}
	for _, e := range extra {
		if !seen[e] {
			seen[e] = true
			out = append(out, e)
		}
	}
	nRandom := n / 8
	rng.Shuffle(len(prio), func(i, j int) { prio[i], prio[j] = prio[j], prio[i] })
	rng.Shuffle(len(rest), func(i, j int) { rest[i], rest[j] = rest[j], rest[i] })
	for _, s := range prio {
		if len(out) >= (n-nRandom)*2/3+len(extra) {
			break
		}
		emit(s)
	}
	for _, s := range rest {
		if len(out) >= n-nRandom+len(extra) {
			break
		}
		emit(s)
	}
	for tries := 0; len(out) < n+len(extra) && tries < 4*n; tries++ {
		emit(randName(rng, 1, 4))
	}
	return out
}
