package main

// Naive linear reference, written from the property statement only. It shares
// no code with pkg/matcher/domain: own normalisation, every rule is tested
// against the name one by one, then the stated precedence is applied.

import (
	"regexp"
	"strings"
)

// refNorm: strip ONE trailing dot, lower-case (all generated text is ASCII).
func refNorm(s string) string {
	if len(s) > 0 && s[len(s)-1] == '.' {
		s = s[:len(s)-1]
	}
	b := []byte(s)
	for i, c := range b {
		if 'A' <= c && c <= 'Z' {
			b[i] = c + 32
		}
	}
	return string(b)
}

type refRule struct {
	typ  string
	norm string         // normalised pattern (full/domain/keyword)
	re   *regexp.Regexp // regexp rules: compiled exactly as written
	val  int
}

type refSet struct {
	rules []refRule
	byVal map[int]*refRule
}

func newRefSet(rs *ruleSet) *refSet {
	s := &refSet{byVal: map[int]*refRule{}}
	for _, r := range rs.Rules {
		rr := refRule{typ: r.Typ, val: r.Val}
		if r.Typ == tRegexp {
			rr.re = regexp.MustCompile(r.Pat)
		} else {
			rr.norm = refNorm(r.Pat)
		}
		s.rules = append(s.rules, rr)
	}
	for i := range s.rules {
		s.byVal[s.rules[i].val] = &s.rules[i]
	}
	return s
}

const (
	mFull = 1 << iota
	mDomain
	mRegexp
	mKeyword
	mAll = mFull | mDomain | mRegexp | mKeyword
)

func typeBit(t string) int {
	switch t {
	case tFull:
		return mFull
	case tDomain:
		return mDomain
	case tRegexp:
		return mRegexp
	case tKeyword:
		return mKeyword
	}
	return 0
}

// describes reports whether rule r describes the normalised name n.
func (r *refRule) describes(n string) bool {
	switch r.typ {
	case tFull:
		return n == r.norm
	case tDomain:
		return n == r.norm || strings.HasSuffix(n, "."+r.norm)
	case tKeyword:
		return strings.Contains(n, r.norm)
	case tRegexp:
		return r.re.MatchString(n)
	}
	return false
}

type refOut struct {
	Match     bool   `json:"match"`
	Winner    string `json:"deciding_type,omitempty"` // tier that decides the value
	Allowed   []int  `json:"allowed_values,omitempty"`
	Mask      int    `json:"matching_types_mask"`    // bit per type with >= 1 matching rule (within the types considered)
	DomDepths int    `json:"matching_domain_depths"` // distinct matching domain patterns (>= 2 = shadowing)
	NearMiss  string `json:"near_miss,omitempty"`
}

// eval applies the statement to name, considering only rule types in mask.
func (s *refSet) eval(name string, mask int) refOut {
	n := refNorm(name)
	var out refOut
	var cand [4][]int // full, domain(longest), regexp, keyword
	longest := -1
	domPats := map[string]bool{}
	for i := range s.rules {
		r := &s.rules[i]
		if typeBit(r.typ)&mask == 0 {
			continue
		}
		if !r.describes(n) {
			// classify near misses (evidence only)
			if r.typ == tDomain || r.typ == tFull {
				switch {
				case n != r.norm && strings.HasSuffix(n, r.norm) && !strings.HasSuffix(n, "."+r.norm):
					out.NearMiss = "nonboundary-suffix"
				case out.NearMiss == "" && strings.HasSuffix(r.norm, "."+n):
					out.NearMiss = "parent-of-rule"
				case out.NearMiss == "" && r.typ == tFull && strings.HasSuffix(n, "."+r.norm):
					out.NearMiss = "subdomain-of-full"
				case out.NearMiss == "" && strings.HasPrefix(n, r.norm):
					out.NearMiss = "rule-is-prefix"
				}
			}
			continue
		}
		out.Mask |= typeBit(r.typ)
		switch r.typ {
		case tFull:
			cand[0] = append(cand[0], r.val)
		case tDomain:
			domPats[r.norm] = true
			if len(r.norm) > longest {
				longest = len(r.norm)
				cand[1] = cand[1][:0]
			}
			if len(r.norm) == longest {
				cand[1] = append(cand[1], r.val)
			}
		case tRegexp:
			cand[2] = append(cand[2], r.val)
		case tKeyword:
			cand[3] = append(cand[3], r.val)
		}
	}
	out.DomDepths = len(domPats)
	for i, t := range allTypes { // full, domain, regexp, keyword = the stated precedence
		if len(cand[i]) > 0 {
			out.Match, out.Winner, out.Allowed = true, t, cand[i]
			break
		}
	}
	return out
}

func (o refOut) allows(v int) bool {
	for _, a := range o.Allowed {
		if a == v {
			return true
		}
	}
	return false
}
