package main

// CONCURRENT LOOKUP PHASE. A matcher is built once and then shared by every
// query goroutine of mosdns (qname / cname matchers, domain_set, hosts,
// redirect all call Match at the same time), so "matches a name if and only if
// some rule describes it" has to hold for lookups that overlap in time, not
// only for lookups made one after the other.
//
// Case = one generated rule set, loaded through every route of builder.build
// (MixMatcher[int], its sub-matchers, standalone sub-matchers, text loader
// with / without values, domain_set plugin, hosts Lookup, hosts plugin, redirect
// plugin). For every route, ONE instance is first asked serially, then concG
// goroutines are released together from a barrier and look up overlapping,
// differently ordered batches of the same names (mixed case, with / without
// trailing dot, long names, names decided by different rule types and names no
// rule describes) on that one instance. Oracle: every single concurrent answer
// (matched? which value?) must be allowed by the linear reference (ref.go) for
// the name that this goroutine asked about. Names whose serial answer already
// disagrees with the reference are left to the serial phases. No clock and no
// race detector is involved; overlap is observed with an in-flight counter.

import (
	"fmt"
	"hash/fnv"
	"math/rand"
	"strconv"
	"strings"
	"sync"
	"sync/atomic"
)

var (
	concG      = 8 // goroutines sharing one matcher instance
	concRounds = 3 // passes of every goroutine over its batch
	concProbes = 120
)

// concLongName grows base to a long (up to 253 bytes) valid name by adding
// labels in front (domain / keyword / unanchored regexp rules keep matching,
// full rules stop matching) or behind it.
func concLongName(rng *rand.Rand, base string) string {
	s := base
	want := 60 + rng.Intn(194)
	front := rng.Intn(5) != 0
	for len(s) < want {
		l := pickLabel(rng)
		if rng.Intn(3) == 0 {
			l = strings.Repeat(l, 1+rng.Intn(12))
			if len(l) > 63 {
				l = l[:63]
			}
			l = strings.Trim(l, "-")
		}
		if l == "" || len(s)+1+len(l) > 253 {
			break
		}
		if front {
			s = l + "." + s
		} else {
			s = s + "." + l
		}
	}
	return s
}

// concNames: probe names derived from the rules, re-spelled so that most carry
// upper-case letters (dns-0x20 style), plus long names.
func concNames(rng *rand.Rand, rs *ruleSet, n int) []string {
	base := probeNames(rng, rs, n, nil)
	var bases []string
	for _, r := range rs.Rules {
		if r.Typ == tRegexp {
			bases = append(bases, strings.Trim(refNorm(r.Ex), ".-"))
		} else {
			bases = append(bases, strings.Trim(refNorm(r.Pat), ".-"))
		}
	}
	bases = append(bases, rs.Pool...)
	for k := 0; k < 4+n/12; k++ {
		b := bases[rng.Intn(len(bases))]
		if b == "" {
			b = rs.Pool[0]
		}
		base = append(base, concLongName(rng, b))
	}
	out := make([]string, 0, len(base))
	for _, s := range base {
		s = refNorm(s)
		if !validName(s) {
			continue
		}
		switch rng.Intn(10) {
		case 0:
		case 1, 2:
			s = upperASCII(s)
		default:
			s = mixCase(rng, s)
		}
		if rng.Intn(2) == 0 {
			s += "."
		}
		out = append(out, s)
	}
	return out
}

type concHit struct {
	m    mismatch
	name string
	ni   int
	n    int64
}

func concClass(exp refOut, got bool) string {
	switch {
	case exp.Match && !got:
		return "false-negative"
	case !exp.Match && got:
		return "false-positive"
	}
	return "wrong-value"
}

func runConcCase(seed int64, dir string, st *stats) []finding {
	rs := genRuleSet(seed)
	rng := rand.New(rand.NewSource(seed ^ 0x636f6e63))
	ref := newRefSet(rs)
	b := &builder{rs: rs, rng: rng, dir: dir, st: newStats()} // loader statistics belong to the serial phase
	targets := b.build()
	names := concNames(rng, rs, concProbes)
	if len(names) < 4 || len(targets) == 0 {
		return nil
	}
	st.add("conc_rule_sets", 1)

	h := fnv.New64a()
	h.Write([]byte(canonical(rs)))
	setID := strconv.FormatUint(h.Sum64(), 36)

	nUpper, nLong := 0, 0
	for _, n := range names {
		if hasUpper(n) {
			nUpper++
		}
		if len(n) >= 64 {
			nLong++
		}
	}

	type routeResult struct {
		route string
		hits  map[string]*concHit // by class
	}
	var bad []routeResult
	var sampleRoutes []map[string]any

	byMask := map[int][]refOut{}
	for _, t := range targets {
		exp := byMask[t.mask]
		if exp == nil {
			exp = make([]refOut, len(names))
			for i, n := range names {
				exp[i] = ref.eval(n, t.mask)
			}
			byMask[t.mask] = exp
		}
		// serial pass on this instance
		type ans struct {
			v  int
			ok bool
		}
		serial := make([]ans, len(names))
		skip := make([]bool, len(names))
		nMatch, nNo := 0, 0
		winners := 0
		for i, n := range names {
			v, ok := t.fn(n, i)
			serial[i] = ans{v, ok}
			if mismatchKey(ref, t.name, n, exp[i], v, ok) != "" {
				skip[i] = true
				st.add("conc_names_left_to_serial_phases(serial answer already disagrees)", 1)
				continue
			}
			if exp[i].Match {
				nMatch++
				winners |= typeBit(exp[i].Winner)
			} else {
				nNo++
			}
		}

		// batches: every goroutine takes a window of at least half of the names, in its own order
		orders := make([][]int, concG)
		for g := range orders {
			start := rng.Intn(len(names))
			l := len(names)/2 + rng.Intn(len(names)/2+1)
			o := make([]int, l)
			for j := range o {
				o[j] = (start + j) % len(names)
			}
			rng.Shuffle(len(o), func(i, j int) { o[i], o[j] = o[j], o[i] })
			orders[g] = o
		}

		var (
			inflight   atomic.Int32
			ready, wg  sync.WaitGroup
			start      = make(chan struct{})
			mu         sync.Mutex
			hits       = map[string]*concHit{}
			lookups    int64
			overlapped int64
			maxFlight  int32
			notSerial  int64
			upperOv    int64
		)
		for g := 0; g < concG; g++ {
			ready.Add(1)
			wg.Add(1)
			go func(order []int) {
				defer wg.Done()
				var nLook, nOv, nDiff, nUpOv int64
				var mx int32
				local := map[string]*concHit{}
				ready.Done()
				<-start
				for r := 0; r < concRounds; r++ {
					for _, ni := range order {
						name := names[ni]
						c := inflight.Add(1)
						v, ok := t.fn(name, ni)
						inflight.Add(-1)
						nLook++
						if c > 1 {
							nOv++
							if hasUpper(name) {
								nUpOv++
							}
							if c > mx {
								mx = c
							}
						}
						if skip[ni] {
							continue
						}
						if v != serial[ni].v || ok != serial[ni].ok {
							nDiff++
						}
						if key := mismatchKey(ref, t.name, name, exp[ni], v, ok); key != "" {
							cl := concClass(exp[ni], ok)
							hh := local[cl]
							if hh == nil {
								hh = &concHit{m: mismatch{key, t.name, exp[ni], v, ok}, name: name, ni: ni}
								local[cl] = hh
							}
							hh.n++
						}
					}
				}
				mu.Lock()
				lookups += nLook
				overlapped += nOv
				notSerial += nDiff
				upperOv += nUpOv
				if mx > maxFlight {
					maxFlight = mx
				}
				for cl, hh := range local {
					if o := hits[cl]; o == nil {
						hits[cl] = hh
					} else {
						if hh.ni < o.ni {
							o.m, o.name, o.ni = hh.m, hh.name, hh.ni
						}
						o.n += hh.n
					}
				}
				mu.Unlock()
			}(orders[g])
		}
		ready.Wait()
		close(start) // barrier: all goroutines are parked on this channel
		wg.Wait()

		st.add("evaluations", lookups+int64(len(names)))
		st.add("evaluations:conc-"+t.name, lookups)
		st.add("conc_lookups", lookups)
		st.add("conc_overlapping_lookups(started while another lookup on the same instance was in flight; lower bound)", overlapped)
		st.add("conc_overlapping_lookups_of_names_with_upper_case", upperOv)
		st.add("conc_answers_differing_from_serial_answer_but_allowed(open choice among equal-rank rules)", notSerial)
		rep.Max("conc_max_lookups_in_flight_on_one_instance", int64(maxFlight))
		if overlapped > 0 {
			st.add("conc_instances_with_overlap", 1)
			if nMatch > 0 && nNo > 0 {
				st.add("conc_instances_with_overlap_and_both_outcomes_expected", 1)
				st.fp["conc|"+setID+"|"+t.name+"|"+strconv.Itoa(winners)] = struct{}{}
			}
		} else {
			st.add("conc_instances_without_overlap", 1)
		}
		if len(hits) > 0 {
			bad = append(bad, routeResult{t.name, hits})
		}
		if st.wantSample && len(sampleRoutes) < 4 {
			sampleRoutes = append(sampleRoutes, map[string]any{"route": t.name, "goroutines": concG, "lookups": lookups, "overlapping_lookups": overlapped,
				"names_expected_to_match": nMatch, "names_expected_not_to_match": nNo, "wrong_concurrent_answers": len(hits)})
		}
	}
	st.add("conc_names", int64(len(names)))
	st.add("conc_names_with_upper_case", int64(nUpper))
	st.add("conc_names_of_64_bytes_or_more", int64(nLong))
	if st.wantSample {
		show := names
		if len(show) > 6 {
			show = show[:6]
		}
		st.sample = map[string]any{"default_type": rs.Default, "rules_as_written": ruleTexts(rs), "names(first few)": show, "name_count": len(names), "routes(first few)": sampleRoutes}
	}

	// one defect shows on every route built on the broken code: keep the most basic route
	lvl := 99
	for _, r := range bad {
		lvl = min(lvl, routeLevel(r.route))
	}
	var fs []finding
	for _, r := range bad {
		if routeLevel(r.route) != lvl {
			continue
		}
		for cl, hh := range r.hits {
			fs = append(fs, finding{
				Key: "concurrent-" + r.route + "-" + cl,
				What: fmt.Sprintf("%d goroutines looking names up at the same time on ONE %s instance (serial lookups of the same names on it were right): %s [%d wrong answers in this case]",
					concG, r.route, hh.m.describe(ref, hh.name), hh.n),
				Case: map[string]any{"phase": "concurrent", "case_seed": seed, "set": rs, "rules_as_written": ruleTexts(rs), "target": r.route, "name": hh.name,
					"normalised_name": refNorm(hh.name), "expected": hh.m.exp, "got_match": hh.m.got, "got_value": hh.m.v,
					"goroutines": concG, "rounds": concRounds, "names": names, "wrong_answers": hh.n, "schedule_dependent": true},
			})
		}
	}
	return fs
}

// concRank: most basic route first, then false negative < wrong value < false positive.
func concRank(f finding) int {
	c := 3
	for i, cl := range []string{"false-negative", "wrong-value", "false-positive"} {
		if strings.HasSuffix(f.Key, "-"+cl) {
			c = i
		}
	}
	return routeLevel(f.Case["target"].(string))*10 + c
}

// reportConc: one defect gives several classes on several routes; the best
// ranked one is the violation, the rest is listed in the evidence.
func (o *phaseOut) reportConc() {
	var bestW *phaseWitness
	keys := make([]string, 0, len(o.best))
	for k := range o.best {
		keys = append(keys, k)
	}
	sortStrings(keys)
	for _, k := range keys {
		w := o.best[k]
		if bestW == nil || concRank(w.f) < concRank(bestW.f) {
			bestW = w
		}
	}
	others := map[string]int{}
	for _, k := range keys {
		w := o.best[k]
		if w != bestW {
			others[k] = w.n
			continue
		}
		w.f.Case["case_index"] = w.idx
		w.f.Case["cases_showing_this_key"] = w.n
		for i := 0; i < w.n; i++ {
			rep.Violation(w.f.Key, w.f.What, w.f.Case)
		}
	}
	if len(others) > 0 {
		rep.Extra("concurrent_phase_further_mismatch_classes(cases; attributed to the reported key)", others)
	}
	if o.bug != "" {
		rep.Inconclusive("concurrent phase: harness self-check failed: %s", o.bug)
	}
}
