package main

import (
	"bytes"
	"context"
	"fmt"
	"math/rand"
	"net"
	"strings"
	"sync"
	"sync/atomic"
	"time"

	"github.com/IrineSistiana/mosdns/v5/coremain"
	"github.com/IrineSistiana/mosdns/v5/pkg/query_context"
	"github.com/IrineSistiana/mosdns/v5/pkg/utils"
	"github.com/IrineSistiana/mosdns/v5/plugin/executable/sequence"
	"github.com/miekg/dns"
	"go.uber.org/zap"
	"gopkg.in/yaml.v3"

	"verifharness/lib/wire"
)

// Loopback variant: the real NewForward behind the plugin registry / YAML args
// and the sequence quick-setup, against UDP servers on 127.0.0.1. It covers the
// configuration path and the clamp of `concurrent` (<= 0, > 3, > |U|).

type dgram struct {
	qname string
	data  []byte
	from  string
}

type udpSrv struct {
	idx   int
	conn  *net.UDPConn
	addr  string
	rcode atomic.Int32
	mu    sync.Mutex
	got   []dgram
	sent  chan string
}

func newSrv(idx int) (*udpSrv, error) {
	c, err := net.ListenUDP("udp4", &net.UDPAddr{IP: net.IPv4(127, 0, 0, 1)})
	if err != nil {
		return nil, err
	}
	s := &udpSrv{idx: idx, conn: c, addr: c.LocalAddr().String(), sent: make(chan string, 64)}
	go s.serve()
	return s, nil
}

func (s *udpSrv) serve() {
	buf := make([]byte, 65535)
	for {
		n, from, err := s.conn.ReadFromUDP(buf)
		if err != nil {
			return
		}
		data := append([]byte(nil), buf[:n]...)
		m, err := wire.Parse(data)
		if err != nil || len(m.Questions) != 1 {
			continue
		}
		name := strings.ToLower(m.Questions[0].Name)
		if strings.HasPrefix(name, "sentinel") {
			s.sent <- name
			continue
		}
		s.mu.Lock()
		s.got = append(s.got, dgram{qname: name, data: data, from: from.String()})
		s.mu.Unlock()
		r, err := buildReply(data, int(s.rcode.Load()), fmt.Sprintf("srv%d", s.idx))
		if err == nil {
			_, _ = s.conn.WriteToUDP(r, from)
		}
	}
}

// flush makes sure everything sent to the server before now has been read.
func (s *udpSrv) flush(tok string) bool {
	c, err := net.Dial("udp4", s.addr)
	if err != nil {
		return false
	}
	defer c.Close()
	name := "sentinel" + tok + ".test."
	q := wire.NewBuilder(1, 0x0100).Question(wire.EncodeName(name), 1, 1).Bytes()
	deadline := time.After(5 * time.Second)
	for {
		_, _ = c.Write(q)
		select {
		case got := <-s.sent:
			if strings.TrimSuffix(got, ".") == strings.TrimSuffix(name, ".") {
				return true
			}
		case <-time.After(200 * time.Millisecond):
		case <-deadline:
			return false
		}
	}
}

func (s *udpSrv) forName(name string) []dgram {
	s.mu.Lock()
	defer s.mu.Unlock()
	var out []dgram
	seen := map[string]bool{}
	for _, d := range s.got {
		if strings.TrimSuffix(d.qname, ".") != strings.TrimSuffix(strings.ToLower(name), ".") {
			continue
		}
		k := d.from + "|" + string(d.data)
		if seen[k] { // retransmission of the same exchange
			continue
		}
		seen[k] = true
		out = append(out, d)
	}
	return out
}

type loopCfg struct {
	L      int
	C      string // literal put into the YAML ("" = key omitted)
	CInt   int
	Via    string // yaml | quick
	Subset []int
}

type loopCall struct {
	name   string
	want   []byte
	rcodes []int
	err    error
	r      *dns.Msg
}

func loopback() {
	rng := rand.New(rand.NewSource(rep.Seed + 14))
	var cfgs []loopCfg
	for _, L := range []int{1, 2, 3, 5} {
		for _, c := range []struct {
			s string
			i int
		}{{"", 0}, {"-1", -1}, {"0", 0}, {"1", 1}, {"\"2\"", 2}, {"3", 3}, {"4", 4}, {"7", 7}} {
			cfgs = append(cfgs, loopCfg{L: L, C: c.s, CInt: c.i, Via: "yaml"})
		}
		cfgs = append(cfgs, loopCfg{L: L, CInt: 3, Via: "quick"})
	}
	cfgs = append(cfgs, loopCfg{L: 4, C: "2", CInt: 2, Via: "yaml", Subset: []int{3, 1, 0}})
	cfgs = append(cfgs, loopCfg{L: 4, C: "5", CInt: 5, Via: "yaml", Subset: []int{2, 0}})
	calls := rep.Pick(6, 25)

	for ci, cf := range cfgs {
		if abortRun.Load() {
			return
		}
		caselog.Log(map[string]any{"phase": "loopback", "cfg": cf})
		srvs := make([]*udpSrv, cf.L)
		for i := range srvs {
			s, err := newSrv(i)
			if err != nil {
				rep.Inconclusive("loopback: cannot listen: %v", err)
				return
			}
			srvs[i] = s
		}
		closeAll := func() {
			for _, s := range srvs {
				s.conn.Close()
			}
		}
		var plugin any
		var err error
		m := coremain.NewTestMosdnsWithPlugins(map[string]any{})
		if cf.Via == "yaml" {
			var sb strings.Builder
			if cf.C != "" {
				fmt.Fprintf(&sb, "concurrent: %s\n", cf.C)
			}
			sb.WriteString("upstreams:\n")
			for i, s := range srvs {
				scheme := "udp://"
				if i%2 == 1 {
					scheme = ""
				}
				fmt.Fprintf(&sb, "  - addr: \"%s%s\"\n    tag: srv%d\n", scheme, s.addr, i)
			}
			var raw map[string]any
			if err = yaml.Unmarshal([]byte(sb.String()), &raw); err == nil {
				info, ok := coremain.GetPluginType("forward")
				if !ok {
					rep.Inconclusive("loopback: plugin type forward not registered")
					closeAll()
					return
				}
				args := info.NewArgs()
				if err = utils.WeakDecode(raw, args); err == nil {
					plugin, err = info.NewPlugin(coremain.NewBP(fmt.Sprintf("fwd%d", ci), m), args)
				}
			}
		} else {
			var addrs []string
			for _, s := range srvs {
				addrs = append(addrs, "udp://"+s.addr)
			}
			plugin, err = sequence.GetExecQuickSetup("forward")(sequence.NewBQ(m, zap.NewNop()), strings.Join(addrs, " "))
		}
		if err != nil {
			rep.Violation("loopback-config-rejected", fmt.Sprintf("a valid forward configuration (%d upstreams, concurrent %q, via %s) was rejected: %v", cf.L, cf.C, cf.Via, err), map[string]any{"kind": "loopback", "cfg": cf})
			closeAll()
			continue
		}
		var exec sequence.Executable
		list := make([]int, cf.L)
		for i := range list {
			list[i] = i
		}
		if cf.Subset != nil {
			var tags []string
			for _, i := range cf.Subset {
				tags = append(tags, fmt.Sprintf("srv%d", i))
			}
			e, err := plugin.(sequence.QuickConfigurableExec).QuickConfigureExec(strings.Join(tags, " "))
			if err != nil {
				rep.Violation("tag-subset-rejected", fmt.Sprintf("loopback QuickConfigureExec(%v): %v", tags, err), map[string]any{"kind": "loopback", "cfg": cf})
				closeAll()
				continue
			}
			exec = e.(sequence.Executable)
			list = cf.Subset
		} else {
			exec = plugin.(sequence.Executable)
		}
		n := clampC(cf.CInt)

		// error path first: queries that cannot be packed go through the real plugin
		// (nothing can reach a server for them; the buffer-pool sanitizer watches the
		// releases), then the ordinary calls follow on the same plugin
		for k, ucl := range unpackableClasses() {
			if (k+ci)%4 != 0 { // 3-4 classes per configuration, all of them over the configurations
				continue
			}
			id := newID()
			q := epQuery(ucl, id, uint16(rng.Intn(65536)))
			qCtx := query_context.NewContext(q)
			if _, err := qCtx.Q().Pack(); err == nil {
				rep.Inconclusive("loopback: class %s packs", qClasses[ucl].name)
				continue
			}
			caselog.Log(map[string]any{"phase": "loopback", "cfg": cf, "unpackable_query_class": qClasses[ucl].name})
			ctx, cancel := context.WithTimeout(context.Background(), 20*time.Second)
			err := exec.Exec(ctx, qCtx)
			cancel()
			rep.Eval(1)
			rep.Count("loopback_unpackable_queries_executed", 1)
			if err != nil {
				rep.Count("loopback_unpackable_queries_ended_in_an_error", 1)
			}
		}

		var lcs []*loopCall
		for k := 0; k < calls; k++ {
			lc := &loopCall{name: fmt.Sprintf("call%d.cfg%d.c14.test.", k, ci), rcodes: make([]int, cf.L)}
			for i, s := range srvs {
				rc := []int{0, 3, 2, 5}[rng.Intn(4)]
				if k == 0 {
					rc = 0
				}
				lc.rcodes[i] = rc
				s.rcode.Store(int32(rc))
			}
			q := new(dns.Msg)
			q.SetQuestion(lc.name, dns.TypeA)
			q.Id = uint16(rng.Intn(65536))
			qCtx := query_context.NewContext(q)
			lc.want, _ = qCtx.Q().Pack()
			ctx, cancel := context.WithTimeout(context.Background(), 20*time.Second)
			lc.err = exec.Exec(ctx, qCtx)
			cancel()
			lc.r = qCtx.R()
			rep.Eval(1)
			// every queried server gets its datagram before the next call changes the rcodes
			// (not a verdict: the count is judged after quiescence + sentinel flush)
			deadline := time.Now().Add(wd("loopback-settle", 6*time.Second))
			for {
				tot := 0
				for _, s := range srvs {
					tot += len(s.forName(lc.name))
				}
				if tot >= n {
					break
				}
				if !time.Now().Before(deadline) {
					wdExpired("loopback-settle")
					break
				}
				time.Sleep(200 * time.Microsecond)
			}
			lcs = append(lcs, lc)
		}
		if cl, ok := plugin.(interface{ Close() error }); ok {
			_ = cl.Close()
		}
		quiet := quiesce("loopback")
		for i, s := range srvs {
			if !s.flush(fmt.Sprintf("-%d-%d", ci, i)) {
				quiet = false
				rep.Inconclusive("loopback: server %d did not see the sentinel", i)
			}
		}
		for _, lc := range lcs {
			judgeLoop(cf, lc, srvs, list, n, quiet)
		}
		closeAll()
		rep.Count("loopback_configs", 1)
	}
}

func judgeLoop(cf loopCfg, lc *loopCall, srvs []*udpSrv, list []int, n int, quiet bool) {
	w := map[string]any{"kind": "loopback", "cfg": cf, "call": lc.name, "rcodes": lc.rcodes}
	got := map[int]int{}
	total := 0
	for _, s := range srvs {
		for _, d := range s.forName(lc.name) {
			got[s.idx]++
			total++
			if len(d.data) != len(lc.want) || !bytes.Equal(d.data[2:], lc.want[2:]) {
				rep.Violation("loopback-datagram-differs-from-packed-query", fmt.Sprintf("server %d received a query that differs from Pack(qCtx.Q()) beyond the message id", s.idx),
					map[string]any{"kind": "loopback", "cfg": cf, "received_hex": fmt.Sprintf("%x", d.data), "want_hex": fmt.Sprintf("%x", lc.want)})
			} else {
				rep.Count("loopback_datagrams_identical_to_packed_query", 1)
			}
		}
	}
	w["servers_queried"] = got
	cls := "c-in-range"
	if cf.CInt <= 0 {
		cls = "c-nonpositive"
	} else if cf.CInt > 3 {
		cls = "c-above-3"
	}
	if n > len(list) {
		cls += "-wrap"
	}
	if quiet && total != n {
		dir := "fewer"
		if total > n {
			dir = "more"
		}
		rep.Violation("queried-"+dir+"-than-clamped-concurrency-"+cls, fmt.Sprintf("loopback: concurrent=%q over %d upstreams: %d exchanges expected, servers saw %d distinct datagrams %v", cf.C, len(list), n, total, got), w)
		return
	}
	if total == n {
		if len(startCandidates(list, n, got)) == 0 {
			rep.Violation("queried-set-not-a-cyclic-run-loopback", fmt.Sprintf("loopback: servers that received the query %v are not %d cyclically consecutive positions of %v", got, n, list), w)
			return
		}
		rep.Count("loopback_calls_cyclic_run_ok", 1)
		rep.Nontrivial(fmt.Sprintf("loopback|L%d|c%s|%s|%v|%v", cf.L, cf.C, cf.Via, cf.Subset, got))
	}
	if lc.err != nil || lc.r == nil {
		// transport-level trouble is not this property's business
		rep.Count("loopback_calls_failed_not_judged", 1)
		return
	}
	mk := markerOf(lc.r)
	var idx int
	if _, err := fmt.Sscanf(mk, "srv%d", &idx); err != nil || idx < 0 || idx >= len(srvs) {
		rep.Violation("loopback-reply-from-nowhere", fmt.Sprintf("loopback: returned reply carries marker %q", mk), w)
		return
	}
	if got[idx] == 0 && total == n {
		rep.Violation("loopback-reply-from-unqueried-server", fmt.Sprintf("loopback: reply of server %d returned, which did not receive this query", idx), w)
		return
	}
	anyGood := false
	for i, c := range got {
		if c > 0 && (lc.rcodes[i] == 0 || lc.rcodes[i] == 3) {
			anyGood = true
		}
	}
	if anyGood && total == n && lc.r.Rcode != 0 && lc.r.Rcode != 3 {
		rep.Violation("result-want-first-good-reply-got-bad-rcode-reply", fmt.Sprintf("loopback: a queried server answered NOERROR/NXDOMAIN (rcodes %v, queried %v) but rcode %d was returned", lc.rcodes, got, lc.r.Rcode), w)
		return
	}
	rep.Count("loopback_calls_result_ok", 1)
}
