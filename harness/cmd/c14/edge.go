package main

// Two value-space dimensions of the ordered workload (mem.go), both run through
// runCase with forced arrival orders and judged by the same oracle:
//
// rcode space. The statement says "the first NOERROR or NXDOMAIN reply to
// arrive is returned" and, if none arrives, "its reply whatever the rcode". An
// rcode is a 12-bit number: the low 4 bits are in the header, the upper 8 in the
// OPT record of the reply. Every value 0..4095 is sent (a) as the first reply to
// arrive while a NOERROR/NXDOMAIN reply of another queried upstream arrives
// later (concurrency 2 and 3, the reply before/after a failing exchange, every
// slot order), and (b) as the reply of the last exchange to finish when nothing
// good arrived (concurrency 1..3). The oracle takes "good" from the statement:
// the full rcode is 0 or 3, nothing else; the returned reply must carry exactly
// the rcode the upstream sent.
//
// boundary sizes. "Each query is sent byte-for-byte unchanged": queries are
// built to an exact size with EDNS0 padding (and filler records above 40 KiB),
// every size from a few below to a few above 512, 1232, the pack scratch size
// 8191, 65535 and every power of two from 128 to 65536 (the buffer-pool size
// classes). The size applies to the packed message without compression, to the
// packed message with compression on, or to the uncompressed length of a message
// that is packed with compression (the library sizes its buffer by the latter).
// The upstreams compare what they receive with Pack(qCtx.Q()); the buffer-pool
// sanitizer fills fresh buffers with 0xA5 and released ones with 0xDD, so pool
// content that is sent instead of the query is named in the witness.

import (
	"fmt"
	"math/rand"
	"runtime"
	"sort"

	"github.com/IrineSistiana/mosdns/v5/pkg/query_context"
	"github.com/miekg/dns"

	"verifharness/lib/wire"
)

// ---- rcode space ----

const rcodeSpace = 4096

func goodRcode(rc int) bool { return rc == dns.RcodeSuccess || rc == dns.RcodeNameError }

// outcomeForRcode: the statement's classes for a reply with this rcode.
func outcomeForRcode(rc int) int {
	switch rc {
	case dns.RcodeSuccess:
		return oNoErr
	case dns.RcodeNameError:
		return oNX
	}
	return oXRcode
}

func rcodeClass(rc int) string {
	switch {
	case goodRcode(rc):
		return "good-0-or-3"
	case rc <= 0xF:
		return "header-only-1..15"
	case rc&0xF == 0 || rc&0xF == 3:
		return "extended-with-header-nibble-0-or-3"
	}
	return "extended-other"
}

// randomBadRcode: any rcode that is not good.
func randomBadRcode(rng *rand.Rand) int {
	for {
		var rc int
		switch rng.Intn(3) {
		case 0:
			rc = rng.Intn(16)
		case 1:
			rc = rng.Intn(rcodeSpace)&^0xF | []int{0, 3}[rng.Intn(2)]
		default:
			rc = rng.Intn(rcodeSpace)
		}
		if !goodRcode(rc) {
			return rc
		}
	}
}

// setArrival puts outcome o (rcode rc if it is a reply of the extended space)
// at arrival k of the case.
func setArrival(cd *caseDesc, k, o, rc int) {
	s := cd.Order[k]
	cd.Outcomes[s] = o
	cd.Rcodes[s] = -1
	if o == oXRcode {
		cd.Rcodes[s] = rc
	}
}

func failingArrival(cd *caseDesc, k int, rng *rand.Rand) {
	switch rng.Intn(5) {
	case 0:
		setArrival(cd, k, oErr, 0)
	case 1:
		setArrival(cd, k, oGarbage, 0)
	case 2:
		setArrival(cd, k, []int{oServfail, oRefused}[rng.Intn(2)], 0)
	default:
		setArrival(cd, k, oXRcode, randomBadRcode(rng))
	}
}

func anyArrival(cd *caseDesc, k int, rng *rand.Rand) {
	if rng.Intn(3) == 0 {
		setArrival(cd, k, []int{oNoErr, oNX}[rng.Intn(2)], 0)
		return
	}
	failingArrival(cd, k, rng)
}

func rcodeCaseShell(rng *rand.Rand, n int) *caseDesc {
	c := n
	if n == 3 {
		c = []int{3, 3, 4, 5, 100}[rng.Intn(5)]
	}
	if n == 1 {
		c = []int{1, 0, -1}[rng.Intn(3)]
	}
	cd := &caseDesc{Mode: "ordered", ULen: 1 + rng.Intn(5), C: c, Cancel: cancelNone, ReplyOPT: rng.Intn(2) == 0}
	cd.Outcomes = make([]int, n)
	cd.Rcodes = make([]int, n)
	cd.Order = rng.Perm(n)
	return cd
}

// maskCase: a reply with rcode rc arrives (first, or after one failing
// exchange), a NOERROR/NXDOMAIN reply arrives later.
func maskCase(rng *rand.Rand, rc, n int) *caseDesc {
	cd := rcodeCaseShell(rng, n)
	p := 0
	if n == 3 && rng.Intn(10) < 3 {
		p = 1
		failingArrival(cd, 0, rng)
	}
	setArrival(cd, p, outcomeForRcode(rc), rc)
	g := p + 1 + rng.Intn(n-p-1)
	for k := p + 1; k < n; k++ {
		if k == g {
			setArrival(cd, k, []int{oNoErr, oNX}[rng.Intn(2)], 0)
		} else {
			anyArrival(cd, k, rng)
		}
	}
	return decorate(cd, rng)
}

// lastCase: nothing good arrives, the last exchange to finish replies with rc.
func lastCase(rng *rand.Rand, rc, n int) *caseDesc {
	cd := rcodeCaseShell(rng, n)
	for k := 0; k < n-1; k++ {
		failingArrival(cd, k, rng)
	}
	setArrival(cd, n-1, outcomeForRcode(rc), rc)
	return decorate(cd, rng)
}

type rcodeRole struct {
	rc   int
	role string // first-reply-then-good-later | last-exchange
}

func rcodeSpacePhase() {
	if abortRun.Load() {
		return
	}
	rng := rand.New(rand.NewSource(rep.Seed*7919 + 401))
	var cases []*caseDesc
	roles := map[int]rcodeRole{}
	add := func(cd *caseDesc, rc int, role string) {
		cases = append(cases, cd)
		roles[cd.ID] = rcodeRole{rc, role}
	}
	for rc := 0; rc < rcodeSpace; rc++ {
		for i := 0; i < rep.Pick(1, 4); i++ {
			n := 2 + rng.Intn(2)
			if i > 0 {
				n = 2 + (i+rc)%2
			}
			add(maskCase(rng, rc, n), rc, "first-reply-then-good-later")
		}
		for i := 0; i < rep.Pick(1, 2); i++ {
			add(lastCase(rng, rc, 1+rng.Intn(3)), rc, "last-exchange")
		}
	}
	rng.Shuffle(len(cases), func(i, j int) { cases[i], cases[j] = cases[j], cases[i] })
	rep.Count("rcode_space_cases_generated", int64(len(cases)))
	cut := len(cases) * 85 / 100
	var runs []*caseRun
	runtime.GOMAXPROCS(16)
	runs = append(runs, runPool("rcode-space-procs16", cases[:cut], 16)...)
	runtime.GOMAXPROCS(2)
	runs = append(runs, runPool("rcode-space-procs2", cases[cut:], 16)...)
	runtime.GOMAXPROCS(16)

	seen := map[string]map[int]bool{}
	for _, c := range runs {
		if c == nil || !c.judged {
			continue
		}
		r := roles[c.cd.ID]
		rep.Count("rcode_space_cases_judged", 1)
		rep.Count("rcode_space_judged:"+r.role+":"+rcodeClass(r.rc), 1)
		if seen[r.role] == nil {
			seen[r.role] = map[int]bool{}
		}
		seen[r.role][r.rc] = true
	}
	for role, m := range seen {
		rep.Count("rcode_space_distinct_rcodes_judged:"+role, int64(len(m)))
	}
	if fastFail.Load() {
		return
	}
	for _, role := range []string{"first-reply-then-good-later", "last-exchange"} {
		if len(seen[role]) < rcodeSpace*95/100 {
			rep.Inconclusive("rcode space: only %d of %d rcodes could be judged as %s", len(seen[role]), rcodeSpace, role)
		}
	}
}

// ---- boundary sizes ----

const (
	sizePacked       = "packed"
	sizePackedComp   = "packed-compressed"
	sizeUncompressed = "uncompressed"
)

var sizeKinds = []string{sizePacked, sizePackedComp, sizeUncompressed}

// boundarySizes: every size within +-d of a boundary.
func boundarySizes(d int) []int {
	bounds := []int{512, 1232, 4096, 8191, 8192, 16384, 65535}
	for k := 7; k <= 16; k++ {
		bounds = append(bounds, 1<<k)
	}
	set := map[int]bool{}
	for _, b := range bounds {
		for x := b - d; x <= b+d; x++ {
			set[x] = true
		}
	}
	var out []int
	for x := range set {
		out = append(out, x)
	}
	sort.Ints(out)
	return out
}

// sizedQuery builds the query context of a boundary-size case: deterministic in
// the descriptor. The query context replaces a client's OPT record with its
// own, so the message is brought to size the way a plugin in front of forward
// does it (ecs, padding, ...): on qCtx.Q() / qCtx.QOpt(), keeping one question
// and the OPT. Padding bytes are a non-constant pattern (never 0xA5 / 0xDD runs).
func sizedQuery(cd *caseDesc) (*query_context.Context, error) {
	m := new(dns.Msg)
	name := fmt.Sprintf("q%d.size.c14.example.", cd.ID)
	m.SetQuestion(name, dns.TypeA)
	m.Id = cd.QID
	if cd.Query%2 == 1 {
		m.SetEdns0(4096, true)
	}
	qCtx := query_context.NewContext(m)
	m = qCtx.Q()
	opt := qCtx.QOpt()
	if cd.SizeKind != sizePacked {
		m.Compress = true
		for i := 0; i < 6; i++ {
			m.Ns = append(m.Ns, nsRR(name, fmt.Sprintf("ns%d.%s", i, name)))
		}
	}
	if cd.Query%3 == 0 {
		opt.Option = append(opt.Option, &dns.EDNS0_SUBNET{Code: dns.EDNS0SUBNET, Family: 1, SourceNetmask: 24, Address: []byte{198, 51, 100, 0}})
	}
	pad := &dns.EDNS0_PADDING{}
	opt.Option = append(opt.Option, pad)
	measure := func() (int, error) {
		mm := m
		if cd.SizeKind == sizeUncompressed {
			c := *m
			c.Compress = false
			mm = &c
		}
		b, err := mm.Pack()
		return len(b), err
	}
	cur, err := measure()
	if err != nil {
		return nil, err
	}
	for i := 0; cd.Size-cur > 40000; i++ {
		var ss []string
		for k := 0; k < 80; k++ {
			ss = append(ss, fmt.Sprintf("%0250d", i*80+k))
		}
		m.Extra = append([]dns.RR{txtRR(fmt.Sprintf("f%d.filler.%s", i, name), ss...)}, m.Extra...)
		if cur, err = measure(); err != nil {
			return nil, err
		}
	}
	if cd.Size < cur {
		return nil, fmt.Errorf("smallest message of this shape has %d bytes", cur)
	}
	pad.Padding = make([]byte, cd.Size-cur)
	for i := range pad.Padding {
		pad.Padding[i] = byte(i*7 + i>>8 + 1)
	}
	if cur, err = measure(); err != nil || cur != cd.Size {
		return nil, fmt.Errorf("built %d bytes (%v)", cur, err)
	}
	if len(m.Question) != 1 || m.IsEdns0() != opt {
		return nil, fmt.Errorf("the sized message lost its question / OPT")
	}
	return qCtx, nil
}

func sizeCase(rng *rand.Rand, size int, kind string, c int) *caseDesc {
	cd := &caseDesc{Mode: "ordered", ULen: 1 + rng.Intn(4), C: c, Cancel: cancelNone, Size: size, SizeKind: kind}
	n := cd.n()
	cd.Outcomes = make([]int, n)
	for i := range cd.Outcomes {
		cd.Outcomes[i] = rng.Intn(numOutcomes - 1) // no silent upstreams
	}
	cd.Order = rng.Perm(n)
	return decorate(cd, rng)
}

func boundarySizePhase() {
	if abortRun.Load() {
		return
	}
	rng := rand.New(rand.NewSource(rep.Seed*104729 + 811))
	sizes := boundarySizes(rep.Pick(3, 8))
	var cases []*caseDesc
	for _, size := range sizes {
		for _, kind := range sizeKinds {
			cs := []int{1 + rng.Intn(3)}
			if rep.Thorough() {
				cs = []int{1, 2, 3}
			}
			for _, c := range cs {
				cd := sizeCase(rng, size, kind, c)
				if _, err := sizedQuery(cd); err != nil {
					// e.g. 125 bytes with six name-server records: no such message
					rep.Count("boundary_size_shapes_without_a_message_of_that_size", 1)
					continue
				}
				cases = append(cases, cd)
			}
		}
	}
	rep.Count("boundary_size_cases_generated", int64(len(cases)))
	runtime.GOMAXPROCS(16)
	runs := runPool("boundary-sizes", cases, 16)
	var got []int
	seen := map[int]bool{}
	perKind := map[string]int{}
	for _, c := range runs {
		if c == nil || !c.judged {
			continue
		}
		rep.Count("boundary_size_cases_judged", 1)
		perKind[c.cd.SizeKind]++
		if !seen[c.cd.Size] {
			seen[c.cd.Size] = true
			got = append(got, c.cd.Size)
		}
		// independent view of what went out: the question and the padding length
		if pm, err := wire.Parse(c.want); err == nil && len(pm.Questions) == 1 {
			rep.Max("boundary_size_largest_packed_query_bytes", int64(len(c.want)))
		} else {
			rep.Inconclusive("boundary sizes: the harness parser cannot read the %d-byte query (%s): %v", c.cd.Size, c.cd.SizeKind, err)
		}
	}
	sort.Ints(got)
	rep.Extra("boundary_sizes_forwarded_and_compared", got)
	rep.Extra("boundary_size_cases_judged_per_kind", perKind)
	rep.Count("boundary_size_distinct_sizes_judged", int64(len(got)))
	if fastFail.Load() {
		return
	}
	if len(got) < len(sizes)*95/100 || rep.Get("boundary_size_payloads_identical_to_packed_query") == 0 {
		rep.Inconclusive("boundary sizes: only %d of %d sizes were forwarded and compared", len(got), len(sizes))
	}
}

// edgeSelfCheck: scripted replies of the extended rcode space say what they are
// meant to say (independent parser: header nibble + OPT byte; the library: the
// merged rcode), and sized queries have the size they are labelled with.
func edgeSelfCheck() {
	q, _ := mkQuery(1, 4711, 0).Pack()
	for _, rc := range []int{0, 3, 1, 15, 16, 19, 23, 32, 35, 0x123, 0xFF0, 0xFF3, 0xFFF} {
		for _, opt := range []bool{false, true} {
			b, err := buildReplyX(q, rc, "m", opt)
			if err != nil {
				rep.Inconclusive("harness self-check: reply with rcode %d: %v", rc, err)
				continue
			}
			pm, err := wire.Parse(b)
			if err != nil {
				rep.Inconclusive("harness self-check: reply with rcode %d unparsable: %v", rc, err)
				continue
			}
			full := pm.Header.Rcode()
			opts := pm.OPTs()
			if len(opts) == 1 {
				full |= int(opts[0].ExtRcode) << 4
			}
			r := new(dns.Msg)
			if full != rc || len(opts) > 1 || (len(opts) == 1) != (opt || rc > 15) || r.Unpack(b) != nil || r.Rcode != rc || markerOf(r) != "m" {
				rep.Inconclusive("harness self-check: scripted reply with rcode %d (opt=%v) reads as header+OPT %d / library %d", rc, opt, full, r.Rcode)
			}
		}
	}
	for _, kind := range sizeKinds {
		for _, size := range []int{700, 8191, 65538} {
			cd := &caseDesc{ID: 1, Size: size, SizeKind: kind, QID: 9, Query: size}
			qc, err := sizedQuery(cd)
			if err != nil {
				rep.Inconclusive("harness self-check: sized query %d/%s: %v", size, kind, err)
				continue
			}
			m := qc.Q()
			b, err := m.Pack()
			c := *m
			c.Compress = false
			u, _ := c.Pack()
			switch {
			case err != nil:
				rep.Inconclusive("harness self-check: sized query %d/%s does not pack: %v", size, kind, err)
			case kind == sizeUncompressed && (len(u) != size || len(b) >= size):
				rep.Inconclusive("harness self-check: sized query %d/%s: uncompressed %d, packed %d", size, kind, len(u), len(b))
			case kind == sizePackedComp && (len(b) != size || len(u) <= size):
				rep.Inconclusive("harness self-check: sized query %d/%s: uncompressed %d, packed %d", size, kind, len(u), len(b))
			case kind == sizePacked && len(b) != size:
				rep.Inconclusive("harness self-check: sized query %d/%s: packed %d", size, kind, len(b))
			}
		}
	}
}
