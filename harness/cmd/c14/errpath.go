package main

// Error paths interleaved with the ordinary workload, followed by (and mixed
// with) concurrent forwards on several Forward instances.
//
// The ordered/storm phases only ever hand a Forward queries that can be packed
// and run one call per Forward at a time. Here every call is drawn from query
// classes that include messages that CANNOT be packed (a label of 64 bytes, a
// name without the closing dot, an empty label, an rcode outside 12 bits, a
// record whose rdata is invalid - early in the message, late in the message,
// beyond 64 KiB), calls whose upstreams all fail, and calls whose context has
// ended or ends while the upstreams are being queried. They are mixed with
// ordinary queries of every size class (a few bytes ... larger than the 8 KiB
// pack scratch buffer ... larger than 64 KiB) on a set of Forward instances:
// most are used by one caller at a time, some by several callers at once, and
// all of them run in parallel.
//
// Oracles:
//   - every upstream looks the query it receives up by its (unique) question
//     name and compares the bytes with Pack(qCtx.Q()) of exactly that call;
//     the call must belong to the upstream's own Forward; a message that could
//     not be packed has no wire form, so nothing may reach an upstream for it;
//   - the payload stays intact while the upstream holds it (private copy);
//   - the reply a call returns is for its own question/ID and comes from an
//     upstream it queried; a good answer among the queried upstreams is never
//     masked (outcomes are released at once, so the verdict is the union over
//     arrival orders);
//   - at the quiescent point after each round the number of exchanges of each
//     call is clamp(c,1,3) on a cyclic run (0 for unpackable queries);
//   - the buffer-pool sanitizer is live during the whole phase: a buffer
//     released twice / used after release on an error path is reported at that
//     release, attributed to the call(s) in flight. Each round starts with a
//     preamble in which the error-path calls run one at a time, so that the
//     attribution there is exact.

import (
	"bytes"
	"context"
	"fmt"
	"math/rand"
	"net"
	"runtime"
	"sort"
	"strings"
	"sync"
	"sync/atomic"
	"time"

	"github.com/IrineSistiana/mosdns/v5/pkg/pool"
	"github.com/IrineSistiana/mosdns/v5/pkg/query_context"
	"github.com/IrineSistiana/mosdns/v5/pkg/upstream"
	fastforward "github.com/IrineSistiana/mosdns/v5/plugin/executable/forward"
	"github.com/miekg/dns"

	"verifharness/lib/poolsan"
	"verifharness/lib/wire"
)

// ---- query classes ----

type qClass struct {
	name     string
	packable bool
	weight   int // relative frequency inside its group
	build    func(m *dns.Msg, base string)
}

func txtRR(owner string, strs ...string) dns.RR {
	return &dns.TXT{Hdr: dns.RR_Header{Name: owner, Rrtype: dns.TypeTXT, Class: dns.ClassINET, Ttl: 5}, Txt: strs}
}

func nsRR(owner, target string) dns.RR {
	return &dns.NS{Hdr: dns.RR_Header{Name: owner, Rrtype: dns.TypeNS, Class: dns.ClassINET, Ttl: 5}, Ns: target}
}

func manyTXT(m *dns.Msg, n, strlen int) {
	for i := 0; i < n; i++ {
		m.Extra = append(m.Extra, txtRR(fmt.Sprintf("t%d.filler.example.", i), strings.Repeat("q", strlen)))
	}
}

var label63 = strings.Repeat("a", 63) + "."

var qClasses = []qClass{
	// ---- packable, by size / shape ----
	{"plain", true, 30, func(m *dns.Msg, base string) {}},
	{"edns-do", true, 10, func(m *dns.Msg, base string) { m.SetEdns0(1232, true) }},
	{"edns-ecs-compress", true, 8, func(m *dns.Msg, base string) {
		o := new(dns.OPT)
		o.Hdr.Name, o.Hdr.Rrtype = ".", dns.TypeOPT
		o.SetUDPSize(4096)
		o.Option = append(o.Option, &dns.EDNS0_SUBNET{Code: dns.EDNS0SUBNET, Family: 1, SourceNetmask: 24, Address: []byte{198, 51, 100, 0}})
		m.Extra = append(m.Extra, o)
		m.Compress = true
	}},
	{"label-63", true, 8, func(m *dns.Msg, base string) { m.Question[0].Name = label63 + base }},
	{"name-near-255", true, 8, func(m *dns.Msg, base string) {
		// longest name the wire allows for this base
		n := label63 + label63 + base
		if pad := 253 - len(n) - 1; pad > 0 {
			if pad > 63 {
				pad = 63
			}
			n = strings.Repeat("b", pad) + "." + n
		}
		m.Question[0].Name = n
	}},
	{"flags-opcode-class", true, 6, func(m *dns.Msg, base string) {
		m.Opcode = dns.OpcodeNotify
		m.CheckingDisabled, m.AuthenticatedData, m.RecursionDesired = true, true, false
		m.Question[0].Qclass = dns.ClassCHAOS
		m.Question[0].Qtype = dns.TypeHTTPS
	}},
	{"extended-rcode-in-opt", true, 4, func(m *dns.Msg, base string) { m.Rcode = 0x123 }},
	{"sections-compressed-2k", true, 6, func(m *dns.Msg, base string) {
		m.Compress = true
		for i := 0; i < 40; i++ {
			m.Ns = append(m.Ns, nsRR(base, fmt.Sprintf("ns%d.%s", i, base)))
		}
		manyTXT(m, 8, 120)
	}},
	{"just-below-scratch-8k", true, 3, func(m *dns.Msg, base string) { manyTXT(m, 34, 200) }},
	{"above-scratch-9k", true, 4, func(m *dns.Msg, base string) { manyTXT(m, 40, 200) }},
	{"above-scratch-20k", true, 2, func(m *dns.Msg, base string) { manyTXT(m, 85, 210) }},
	{"above-64k", true, 1, func(m *dns.Msg, base string) { manyTXT(m, 290, 220) }},

	// ---- cannot be packed ----
	{"x-label-64", false, 10, func(m *dns.Msg, base string) { m.Question[0].Name = strings.Repeat("x", 64) + "." + base }},
	{"x-label-200", false, 4, func(m *dns.Msg, base string) { m.Question[0].Name = strings.Repeat("x", 200) + "." + base }},
	{"x-name-not-fqdn", false, 6, func(m *dns.Msg, base string) { m.Question[0].Name = strings.TrimSuffix(base, ".") }},
	{"x-empty-label", false, 6, func(m *dns.Msg, base string) { m.Question[0].Name = "a.." + base }},
	{"x-dangling-escape", false, 3, func(m *dns.Msg, base string) { m.Question[0].Name = strings.TrimSuffix(base, ".") + "\\" }},
	{"x-rcode-13-bits", false, 6, func(m *dns.Msg, base string) { m.Rcode = 0x1000 }},
	{"x-rcode-negative", false, 3, func(m *dns.Msg, base string) { m.Rcode = -1 }},
	{"x-txt-string-256", false, 6, func(m *dns.Msg, base string) {
		m.Extra = append(m.Extra, txtRR("t."+base, strings.Repeat("z", 256)))
	}},
	{"x-a-record-3-byte-ip", false, 5, func(m *dns.Msg, base string) {
		m.Answer = append(m.Answer, &dns.A{Hdr: dns.RR_Header{Name: base, Rrtype: dns.TypeA, Class: dns.ClassINET}, A: net.IP{1, 2, 3}})
	}},
	{"x-nil-record", false, 3, func(m *dns.Msg, base string) { m.Ns = append(m.Ns, nil) }},
	{"x-svcb-empty-alpn", false, 3, func(m *dns.Msg, base string) {
		m.Extra = append(m.Extra, &dns.SVCB{Hdr: dns.RR_Header{Name: base, Rrtype: dns.TypeSVCB, Class: dns.ClassINET}, Target: ".", Value: []dns.SVCBKeyValue{&dns.SVCBAlpn{Alpn: []string{""}}}})
	}},
	{"x-late-after-50-records", false, 6, func(m *dns.Msg, base string) {
		for i := 0; i < 50; i++ {
			m.Ns = append(m.Ns, nsRR(fmt.Sprintf("n%d.%s", i, base), "ns."+base))
		}
		m.Ns = append(m.Ns, nsRR(base, strings.Repeat("y", 70)+"."+base))
	}},
	{"x-late-beyond-scratch-9k", false, 4, func(m *dns.Msg, base string) {
		manyTXT(m, 40, 200)
		m.Extra = append(m.Extra, txtRR("t."+base, strings.Repeat("z", 300)))
	}},
	{"x-rdata-above-64k", false, 2, func(m *dns.Msg, base string) {
		var ss []string
		for i := 0; i < 300; i++ {
			ss = append(ss, strings.Repeat("q", 255))
		}
		m.Extra = append(m.Extra, txtRR("t."+base, ss...))
	}},
}

var (
	packableIdx, unpackableIdx []int // indices into qClasses, repeated by weight
)

func init() {
	for i, c := range qClasses {
		for k := 0; k < c.weight; k++ {
			if c.packable {
				packableIdx = append(packableIdx, i)
			} else {
				unpackableIdx = append(unpackableIdx, i)
			}
		}
	}
}

func epBase(callID int) string { return fmt.Sprintf("e%d.errpath.c14.example.", callID) }

func epQuery(class int, callID int, qid uint16) *dns.Msg {
	m := new(dns.Msg)
	base := epBase(callID)
	m.SetQuestion(base, dns.TypeA)
	qClasses[class].build(m, base)
	m.Id = qid
	return m
}

// ---- descriptors ----

const (
	epCtxNone = "never-ends"
	epCtxPre  = "ended-before-the-call"
	epCtxMid  = "ends-when-the-first-upstream-is-entered"
)

type epFwdDesc struct {
	Idx       int `json:"forward"`
	Upstreams int `json:"upstreams"`
	C         int `json:"concurrent"`
	Callers   int `json:"callers_at_once"`
}

type epCallDesc struct {
	ID       int       `json:"id"`
	Round    int       `json:"round"`
	Stage    string    `json:"stage"` // preamble (one call at a time) | storm
	Fwd      epFwdDesc `json:"on"`
	Class    string    `json:"query_class"`
	Packable bool      `json:"packable"`
	QName    string    `json:"question_name"`
	QID      uint16    `json:"qid"`
	WireLen  int       `json:"packed_bytes"`
	Outcomes []string  `json:"outcome_per_upstream"`
	Ctx      string    `json:"caller_ctx"`
	// how many queries that cannot be packed Exec had been given before this call started
	PackFailuresBefore int64 `json:"unpackable_queries_executed_before"`
}

type epCall struct {
	d        epCallDesc
	f        *epFwd
	outcomes []int
	want     []byte
	key      string // lower-cased question name as lib/wire renders it
	cancel   func()

	mu      sync.Mutex
	recvUps []int
	execErr error
	ctxErr  bool
	reply   *dns.Msg
	done    bool
}

type epFwd struct {
	d   epFwdDesc
	fwd *fastforward.Forward
	ups []*epUp
	cur atomic.Pointer[epCall] // the call in flight when the Forward has one caller
}

type epUp struct {
	f   *epFwd
	idx int
}

func (u *epUp) Close() error { return nil }

var _ upstream.Upstream = (*epUp)(nil)

var (
	epRegistry  sync.Map // key -> *epCall
	epInflight  sync.Map // call id -> *epCall (Exec running)
	epInflightN atomic.Int64
	epDelivered atomic.Int64
	epPackFails atomic.Int64
	epReceipts  atomic.Int64
	// set once a payload could not be matched with its call: receipts can no longer
	// be attributed, so the per-call exchange counts / results are not judged
	epMisattributed atomic.Bool
)

func epViolate(key, what string, call *epCall, more map[string]any) {
	noteViolation()
	w := map[string]any{"kind": "errpaths", "detail": more}
	if call != nil {
		w["call"] = call.d
		what = fmt.Sprintf("%s [call: %s query %q (%d bytes packed) on forward #%d with %d upstream(s), concurrent=%d, %d caller(s) at once; ctx %s; %d unpackable queries had gone through Exec before]",
			what, call.d.Class, trunc(call.d.QName, 80), call.d.WireLen, call.d.Fwd.Idx, call.d.Fwd.Upstreams, call.d.Fwd.C, call.d.Fwd.Callers, call.d.Ctx, call.d.PackFailuresBefore)
	}
	rep.Violation(key, what, w)
}

func trunc(s string, n int) string {
	if len(s) <= n {
		return s
	}
	return s[:n] + fmt.Sprintf("...(%d bytes)", len(s))
}

func hexHead(b []byte) string {
	if len(b) > 96 {
		return fmt.Sprintf("%x...(%d bytes)", b[:96], len(b))
	}
	return fmt.Sprintf("%x", b)
}

func firstDiff(a, b []byte) int {
	n := len(a)
	if len(b) < n {
		n = len(b)
	}
	for i := 0; i < n; i++ {
		if a[i] != b[i] {
			return i
		}
	}
	if len(a) != len(b) {
		return n
	}
	return -1
}

// epInflightDescs lists the error-path-phase calls whose Exec is running (for
// sanitizer findings, which are raised on whatever goroutine releases a buffer).
func epInflightDescs() []epCallDesc {
	var out []epCallDesc
	epInflight.Range(func(_, v any) bool {
		if len(out) < 8 {
			out = append(out, v.(*epCall).d)
		}
		return true
	})
	sort.Slice(out, func(i, j int) bool { return out[i].ID < out[j].ID })
	return out
}

func (u *epUp) ExchangeContext(ctx context.Context, m []byte) (*[]byte, error) {
	snap := append([]byte(nil), m...)
	epReceipts.Add(1)
	var call *epCall
	byName := false
	if pm, err := wire.Parse(snap); err == nil && len(pm.Questions) >= 1 {
		if v, ok := epRegistry.Load(strings.ToLower(pm.Questions[0].Name)); ok {
			call, byName = v.(*epCall), true
		}
	}
	if call == nil {
		// not attributable by name: on a Forward with one caller it can only belong to
		// the call in flight there (or a straggler of an earlier one; wrong either way)
		call = u.f.cur.Load()
	}
	first := false
	if call != nil {
		call.mu.Lock()
		call.recvUps = append(call.recvUps, u.idx)
		first = len(call.recvUps) == 1
		call.mu.Unlock()
	}
	switch {
	case call == nil:
		epMisattributed.Store(true)
		epViolate("concurrent-forwards-payload-is-no-query-in-flight", fmt.Sprintf("upstream #%d of forward #%d (%d callers at once) received %d bytes that are not the packed form of any query given to a Forward: %s", u.idx, u.f.d.Idx, u.f.d.Callers, len(snap), hexHead(snap)), nil,
			map[string]any{"forward": u.f.d, "received_hex": hexHead(snap), "in_flight": epInflightDescs()})
		return nil, errScripted
	case !call.d.Packable:
		epViolate("unpackable-query-reached-an-upstream", fmt.Sprintf("upstream #%d received %d bytes for a query that has no wire form (Pack fails): %s", u.idx, len(snap), hexHead(snap)), call, map[string]any{"received_hex": hexHead(snap)})
		return nil, errScripted
	case !bytes.Equal(snap, call.want):
		how := "the bytes carry this call's question name but differ"
		if !byName {
			how = "the bytes are not even parsable as / do not name any query in flight; this Forward had exactly this one call in flight"
		}
		epMisattributed.Store(true)
		epViolate("concurrent-forwards-payload-differs-from-packed-query", fmt.Sprintf("upstream #%d of forward #%d received %d bytes that differ from Pack(qCtx.Q()) (%d bytes) at offset %d (%s); want %s got %s", u.idx, u.f.d.Idx, len(snap), len(call.want), firstDiff(snap, call.want), how, hexHead(call.want), hexHead(snap)), call,
			map[string]any{"received_hex": hexHead(snap), "want_hex": hexHead(call.want), "first_difference_at": firstDiff(snap, call.want), "other_calls_in_flight": epInflightDescs()})
	case call.f != u.f:
		epMisattributed.Store(true)
		epViolate("concurrent-forwards-query-delivered-to-another-forwards-upstream", fmt.Sprintf("upstream #%d of forward #%d received the (intact) query of a call that was made on forward #%d", u.idx, u.f.d.Idx, call.f.d.Idx), call, map[string]any{"receiving_forward": u.f.d})
	default:
		rep.Count("errpath_payloads_identical_to_packed_query", 1)
		if call.d.PackFailuresBefore > 0 {
			rep.Count("errpath_payloads_checked_after_a_pack_failure", 1)
		}
	}
	if call.f != u.f {
		return nil, errScripted // the script of another Forward's call does not apply here
	}

	// let the other callers run while we hold the payload
	for i := 0; i < 3; i++ {
		runtime.Gosched()
	}
	if !bytes.Equal(m, snap) {
		epViolate("payload-modified-after-handover", fmt.Sprintf("the query bytes handed to upstream #%d of forward #%d changed while it was working on them (first difference at %d)", u.idx, u.f.d.Idx, firstDiff(m, snap)), call, nil)
	} else {
		rep.Count("payload_intact_at_release", 1)
	}
	// (the payload is only read: an Upstream "MUST NOT keep or modify m", and the statement
	// does not require the payloads of the c exchanges to be private copies)
	if first && call.d.Ctx == epCtxMid {
		call.cancel()
	}
	if !call.d.Packable {
		return nil, errScripted
	}
	switch o := call.outcomes[u.idx]; o {
	case oNoErr, oNX, oServfail, oRefused:
		b, err := buildReply(call.want, rcodeOf(o), fmt.Sprintf("ep%d/up%d", call.d.ID, u.idx))
		if err != nil {
			rep.Inconclusive("errpaths: harness could not build a reply for class %s: %v", call.d.Class, err)
			return nil, errScripted
		}
		bp := pool.GetBuf(len(b))
		copy(*bp, b)
		return bp, nil
	case oGarbage:
		b := garbage(call.d.ID+u.idx, call.want)
		bp := pool.GetBuf(len(b))
		copy(*bp, b)
		return bp, nil
	}
	return nil, errScripted
}

// ---- scripts ----

type epScriptItem struct {
	class    int
	outcomes []int
	ctx      string
	qid      uint16
}

func epOutcomes(rng *rand.Rand, L int, allFail bool) []int {
	oc := make([]int, L)
	for i := range oc {
		switch x := rng.Intn(100); {
		case allFail:
			oc[i] = []int{oErr, oGarbage, oErr, oServfail}[rng.Intn(4)]
		case x < 64:
			oc[i] = oNoErr
		case x < 72:
			oc[i] = oNX
		case x < 80:
			oc[i] = oServfail
		case x < 86:
			oc[i] = oRefused
		case x < 93:
			oc[i] = oErr
		default:
			oc[i] = oGarbage
		}
	}
	return oc
}

// epItem draws one call: ~14% unpackable, ~8% every upstream fails, ~10% ctx
// ends, the rest ordinary.
func epItem(rng *rand.Rand, L int) epScriptItem {
	it := epScriptItem{ctx: epCtxNone, qid: uint16(rng.Intn(65536))}
	x := rng.Intn(100)
	switch {
	case x < 14:
		it.class = unpackableIdx[rng.Intn(len(unpackableIdx))]
	default:
		it.class = packableIdx[rng.Intn(len(packableIdx))]
	}
	it.outcomes = epOutcomes(rng, L, x >= 14 && x < 22)
	if y := rng.Intn(100); y < 5 {
		it.ctx = epCtxPre
	} else if y < 10 {
		it.ctx = epCtxMid
	}
	return it
}

func epRun(f *epFwd, it epScriptItem, round int, stage string) *epCall {
	id := newID()
	cl := qClasses[it.class]
	q := epQuery(it.class, id, it.qid)
	qCtx := query_context.NewContext(q)
	c := &epCall{f: f, outcomes: it.outcomes}
	c.d = epCallDesc{ID: id, Round: round, Stage: stage, Fwd: f.d, Class: cl.name, Packable: cl.packable, QName: q.Question[0].Name, QID: it.qid, Ctx: it.ctx, Outcomes: names(it.outcomes)}
	want, err := qCtx.Q().Pack()
	if (err == nil) != cl.packable {
		rep.Inconclusive("errpaths: class %s: Pack error %v, packable=%v expected", cl.name, err, cl.packable)
		return nil
	}
	if cl.packable {
		c.want = want
		c.d.WireLen = len(want)
		pm, err := wire.Parse(want)
		if err != nil || len(pm.Questions) != 1 {
			rep.Inconclusive("errpaths: class %s: the harness parser cannot read the packed query: %v", cl.name, err)
			return nil
		}
		c.key = strings.ToLower(pm.Questions[0].Name)
		if _, dup := epRegistry.LoadOrStore(c.key, c); dup {
			rep.Inconclusive("errpaths: question name %q is not unique", c.key)
			return nil
		}
	}
	c.d.PackFailuresBefore = epPackFails.Load()
	ctx, cancel := context.WithCancel(context.Background())
	c.cancel = cancel
	defer cancel()
	if it.ctx == epCtxPre {
		cancel()
	}
	if f.d.Callers == 1 {
		f.cur.Store(c)
	}
	caselogMaybe(c)
	rep.Eval(1)
	epInflight.Store(id, c)
	rep.Max("errpath_max_exec_calls_in_flight", epInflightN.Add(1))
	sanBefore := 0
	if stage == "preamble" {
		sanBefore = len(poolsan.Reports())
	}
	done := make(chan error, 1)
	go func() { done <- f.fwd.Exec(ctx, qCtx) }()
	var execErr error
	t := time.NewTimer(wd("errpath-exec", 60*time.Second))
	select {
	case execErr = <-done:
		t.Stop()
	case <-t.C:
		wdExpired("errpath-exec")
		epInflightN.Add(-1)
		epInflight.Delete(id)
		// every upstream of this phase answers at once: a call that is still running
		// after a minute did not end with its last exchange / its context
		epViolate("no-return-after-last-exchange", "Exec had not returned 60 s after it was called although every upstream answers immediately", c, nil)
		return c
	}
	epInflightN.Add(-1)
	epInflight.Delete(id)
	if !cl.packable {
		epPackFails.Add(1)
		rep.Count("errpath_unpackable_queries_executed", 1)
		rep.SetAdd("errpath_unpackable_classes_executed", cl.name)
		if execErr != nil {
			rep.Count("errpath_unpackable_queries_ended_in_an_error", 1)
		}
	}
	if stage == "preamble" {
		// nothing else runs: a sanitizer finding raised meanwhile belongs to this call
		// (the sanitizer callback in main names it in the witness)
		if len(poolsan.Reports()) == sanBefore {
			rep.Count("errpath_preamble_calls_clean_under_sanitizer", 1)
		}
	}
	c.mu.Lock()
	c.execErr = execErr
	c.ctxErr = isCtxErr(ctx, execErr)
	c.reply = qCtx.R()
	c.done = true
	c.mu.Unlock()
	if cl.packable {
		if after, err := qCtx.Q().Pack(); err != nil || !bytes.Equal(after, want) {
			epViolate("query-message-modified", "qCtx.Q() packs to different bytes after the call", c, nil)
		}
	}
	return c
}

var epLogN atomic.Int64

// caselogMaybe records the call before it runs if it is one of the rare shapes
// (the storm makes thousands of calls; a crash is attributed by the driver from
// the stack, this only narrows it down).
func caselogMaybe(c *epCall) {
	if c.d.Stage == "preamble" || !c.d.Packable {
		if epLogN.Add(1) <= 400 {
			caseLogMu.Lock()
			caselog.Log(map[string]any{"phase": "errpaths", "call": c.d})
			caseLogMu.Unlock()
		}
	}
}

// epJudge is called at a quiescent point: no goroutine of the forward package is
// left, the set of upstreams the call reached is final.
func epJudge(c *epCall) {
	if c == nil {
		return
	}
	if c.key != "" {
		epRegistry.Delete(c.key)
	}
	c.mu.Lock()
	defer c.mu.Unlock()
	if !c.done {
		return
	}
	if epMisattributed.Load() {
		rep.Count("errpath_calls_not_judged_after_payload_violation", 1)
		return
	}
	L, n := c.f.d.Upstreams, clampC(c.f.d.C)
	got := map[int]int{}
	for _, u := range c.recvUps {
		got[u]++
	}
	cd := &caseDesc{ULen: L, C: c.f.d.C}
	if !c.d.Packable {
		// reported at the upstream if anything arrived
		if len(c.recvUps) == 0 {
			rep.Count("errpath_unpackable_queries_reached_no_upstream", 1)
		}
		rep.Nontrivial(fmt.Sprintf("errpath|%s|L%d|c%d|callers%d|%s", c.d.Class, L, c.f.d.C, c.f.d.Callers, c.d.Ctx))
		return
	}
	if len(c.recvUps) != n {
		dir := "fewer"
		if len(c.recvUps) > n {
			dir = "more"
		}
		epViolate("queried-"+dir+"-than-clamped-concurrency-"+cd.cClass(), fmt.Sprintf("concurrent=%d over a list of %d: %d upstream exchanges expected (clamp to 1..3), %d observed once all helper goroutines had ended", c.f.d.C, L, n, len(c.recvUps)), c, map[string]any{"per_upstream": got})
		return
	}
	list := cd.list()
	if len(startCandidates(list, n, got)) == 0 {
		k := "queried-set-not-a-cyclic-run"
		if n > L {
			k += "-wrap"
		}
		epViolate(k, fmt.Sprintf("the upstreams that received the query %v are not %d cyclically consecutive positions of a list of %d", c.recvUps, n, L), c, nil)
		return
	}
	rep.Count("errpath_calls_cyclic_run_ok", 1)

	// ---- result: union over arrival orders (everything is released at once) ----
	anyGood, anyFail := false, false
	for u := range got {
		if isGood(c.outcomes[u]) {
			anyGood = true
		}
		if o := c.outcomes[u]; o == oErr || o == oGarbage {
			anyFail = true
		}
	}
	ctxMayEnd := c.d.Ctx != epCtxNone
	verdict := ""
	switch {
	case c.execErr != nil && c.ctxErr && ctxMayEnd:
		rep.Count("errpath_result:ctx", 1)
	case c.execErr != nil:
		if anyGood && !ctxMayEnd {
			verdict = fmt.Sprintf("a queried upstream answered %v but the call failed: %v", names(c.outcomes), c.execErr)
		} else if anyGood {
			// ctx ended concurrently and a good answer was there: only the ctx error or the reply are allowed
			verdict = fmt.Sprintf("a queried upstream answered well and the context ended, but the call returned neither that reply nor the context's error: %v", c.execErr)
		} else if !anyFail && !ctxMayEnd {
			verdict = fmt.Sprintf("every queried upstream sent a reply (%v, queried %v), so the last exchange to finish has one, but the call failed: %v", names(c.outcomes), c.recvUps, c.execErr)
		} else {
			rep.Count("errpath_result:error", 1)
		}
	case c.reply == nil:
		verdict = "the call returned no error and no reply"
	default:
		r := c.reply
		var cid, up int
		mk := markerOf(r)
		if _, err := fmt.Sscanf(mk, "ep%d/up%d", &cid, &up); err != nil {
			verdict = fmt.Sprintf("the returned reply carries marker %q: it was not produced by an upstream of this phase", mk)
		} else if cid != c.d.ID || r.Id != c.d.QID || len(r.Question) != 1 || !strings.EqualFold(r.Question[0].Name, c.d.QName) {
			verdict = fmt.Sprintf("the returned reply (id %d, marker %q) was produced for another call's query", r.Id, mk)
		} else if got[up] == 0 {
			verdict = fmt.Sprintf("the returned reply comes from upstream #%d, which this call did not query (%v)", up, c.recvUps)
		} else if r.Rcode != rcodeOf(c.outcomes[up]) {
			verdict = fmt.Sprintf("the returned reply of upstream #%d has rcode %d, the upstream sent %s", up, r.Rcode, outcomeName[c.outcomes[up]])
		} else if anyGood && !isGood(c.outcomes[up]) {
			verdict = fmt.Sprintf("a queried upstream answered NOERROR/NXDOMAIN (%v, queried %v) but the %s reply of upstream #%d was returned", names(c.outcomes), c.recvUps, outcomeName[c.outcomes[up]], up)
		} else {
			rep.Count("errpath_result:reply", 1)
		}
	}
	if verdict != "" {
		epViolate("errpath-result-not-allowed-by-any-order", verdict, c, map[string]any{"queried": c.recvUps})
		return
	}
	rep.Count("errpath_calls_judged", 1)
	rep.SetAdd("errpath_packable_classes_executed", c.d.Class)
	rep.Nontrivial(fmt.Sprintf("errpath|%s|L%d|c%d|callers%d|%s|%s", c.d.Class, L, c.f.d.C, c.f.d.Callers, c.d.Ctx, strings.Join(names(c.outcomes), ",")))
	if rep.WantSample() && c.d.ID%193 == 0 {
		rep.Sample(map[string]any{"errpath_call": c.d, "queried": c.recvUps})
	}
}

func epSelfCheck() {
	for i, cl := range qClasses {
		q := epQuery(i, 1, 77)
		_, err := query_context.NewContext(q).Q().Pack()
		if (err == nil) != cl.packable {
			rep.Inconclusive("harness self-check: query class %s: Pack error %v but packable=%v", cl.name, err, cl.packable)
		}
	}
}

// errPaths is the phase entry point.
func errPaths() {
	if abortRun.Load() {
		return
	}
	epSelfCheck()
	rng := rand.New(rand.NewSource(rep.Seed*131 + 77))
	// forwards: #0 is the plainest configuration (one upstream, one query at a
	// time); the last three are used by several callers at once
	const nf = 12
	callers := []int{1, 1, 1, 1, 1, 1, 1, 1, 1, 2, 2, 3}
	fwds := make([]*epFwd, nf)
	for i := range fwds {
		L := 1 + rng.Intn(4)
		C := []int{1, 1, 2, 3, 3, 5, 0, -1}[rng.Intn(8)]
		if i == 0 {
			L, C = 1, 1
		}
		f := &epFwd{d: epFwdDesc{Idx: i, Upstreams: L, C: C, Callers: callers[i]}}
		us := make([]upstream.Upstream, L)
		for k := 0; k < L; k++ {
			u := &epUp{f: f, idx: k}
			f.ups = append(f.ups, u)
			us[k] = u
		}
		fw, err := fastforward.VerifNewForward(us, nil, C)
		if err != nil {
			rep.Inconclusive("VerifNewForward: %v", err)
			return
		}
		f.fwd = fw
		fwds[i] = f
	}
	rounds := []int{16, 16, 4}
	perWorker := rep.Pick(220, 2500)
	for round, procs := range rounds {
		if abortRun.Load() {
			break
		}
		runtime.GOMAXPROCS(procs)
		caselog.Log(map[string]any{"phase": "errpaths", "round": round, "procs": procs, "seed": rep.Seed})
		var calls []*epCall
		// ---- preamble: error paths one at a time, on forwards chosen at random ----
		for k := 0; k < rep.Pick(10, 40); k++ {
			f := fwds[rng.Intn(nf)]
			it := epScriptItem{ctx: epCtxNone, qid: uint16(rng.Intn(65536))}
			switch k % 5 {
			case 0, 1, 2: // a query that cannot be packed: every class comes by over the rounds
				it.class = unpackableIdx[rng.Intn(len(unpackableIdx))]
				if k < 3 {
					uniq := unpackableClasses()
					it.class = uniq[(round*3+k)%len(uniq)]
				}
				it.outcomes = epOutcomes(rng, f.d.Upstreams, false)
			case 3: // every upstream fails
				it.class = packableIdx[rng.Intn(len(packableIdx))]
				it.outcomes = epOutcomes(rng, f.d.Upstreams, true)
			default: // the caller's context has ended / ends meanwhile
				it.class = packableIdx[rng.Intn(len(packableIdx))]
				it.outcomes = epOutcomes(rng, f.d.Upstreams, false)
				it.ctx = []string{epCtxPre, epCtxMid}[rng.Intn(2)]
			}
			calls = append(calls, epRun(f, it, round, "preamble"))
		}
		rep.Count("errpath_preamble_calls", int64(len(calls)))

		// ---- storm: all forwards at once, error paths mixed in ----
		var wg sync.WaitGroup
		var mu sync.Mutex
		start := make(chan struct{})
		w := 0
		for _, f := range fwds {
			for k := 0; k < f.d.Callers; k++ {
				wg.Add(1)
				wrng := rand.New(rand.NewSource(rep.Seed*977 + int64(round)*131 + int64(w)))
				w++
				go func(f *epFwd, wrng *rand.Rand) {
					defer wg.Done()
					script := make([]epScriptItem, perWorker)
					for i := range script {
						script[i] = epItem(wrng, f.d.Upstreams)
					}
					mine := make([]*epCall, 0, perWorker)
					<-start
					for _, it := range script {
						if abortRun.Load() {
							break
						}
						mine = append(mine, epRun(f, it, round, "storm"))
					}
					mu.Lock()
					calls = append(calls, mine...)
					mu.Unlock()
				}(f, wrng)
			}
		}
		close(start)
		wg.Wait()
		rep.Count("errpath_rounds", 1)
		quiet := quiesce(fmt.Sprintf("errpaths-round%d", round))
		if quiet {
			for _, c := range calls {
				epJudge(c)
			}
		}
		poolsan.Sweep()
	}
	runtime.GOMAXPROCS(16)
	rep.Count("errpath_upstream_receipts", epReceipts.Load())
	rep.Count("errpath_hook_deliveries", epDelivered.Load())
	if fastFail.Load() {
		return
	}
	if rep.Get("errpath_unpackable_queries_executed") == 0 || rep.Get("errpath_payloads_checked_after_a_pack_failure") == 0 {
		rep.Inconclusive("errpaths: no payload was compared after a pack failure (unpackable executed: %d)", rep.Get("errpath_unpackable_queries_executed"))
	}
	if rep.Get("errpath_max_exec_calls_in_flight") < 2 {
		rep.Inconclusive("errpaths: Exec calls never overlapped")
	}
	if rep.SetLen("errpath_unpackable_classes_executed") < len(unpackableClasses()) {
		rep.Inconclusive("errpaths: only %d of %d unpackable query classes were executed", rep.SetLen("errpath_unpackable_classes_executed"), len(unpackableClasses()))
	}
}

func unpackableClasses() []int {
	var out []int
	for i, c := range qClasses {
		if !c.packable {
			out = append(out, i)
		}
	}
	return out
}
