package main

import (
	"bytes"
	"context"
	"errors"
	"fmt"
	"sort"
	"strings"
	"sync"
	"sync/atomic"
	"time"

	"github.com/IrineSistiana/mosdns/v5/pkg/pool"
	"github.com/IrineSistiana/mosdns/v5/pkg/query_context"
	"github.com/IrineSistiana/mosdns/v5/pkg/upstream"
	fastforward "github.com/IrineSistiana/mosdns/v5/plugin/executable/forward"
	"github.com/IrineSistiana/mosdns/v5/plugin/executable/sequence"
	"github.com/miekg/dns"

	"verifharness/lib/wire"
)

// ---- scripted outcomes ----

const (
	oNoErr = iota
	oNX
	oServfail
	oRefused
	oErr
	oGarbage
	oNever
	numOutcomes
)

// oXRcode: a well-formed reply whose rcode is caseDesc.Rcodes[slot] - any value
// of the 12-bit rcode space other than 0 and 3 (the upper 8 bits travel in the
// OPT record). It is not part of the enumerated product (numOutcomes); the
// rcode-space phase (edge.go) generates it.
const oXRcode = numOutcomes

var outcomeName = [...]string{"NOERROR", "NXDOMAIN", "SERVFAIL", "REFUSED", "error", "garbage", "never", "RCODE-x"}

func isGood(o int) bool     { return o == oNoErr || o == oNX }
func isBadReply(o int) bool { return o == oServfail || o == oRefused || o == oXRcode }
func rcodeOf(o int) int {
	switch o {
	case oNoErr:
		return dns.RcodeSuccess
	case oNX:
		return dns.RcodeNameError
	case oServfail:
		return dns.RcodeServerFailure
	case oRefused:
		return dns.RcodeRefused
	}
	return -1
}

const (
	cancelNone = -2 // the caller's ctx never ends
	cancelPre  = -1 // ctx already ended when Exec is called
	// k >= 0: ctx ends after k arrivals (0 = all upstreams queried, none has answered)
)

// caseDesc is a complete, re-executable description of one call.
type caseDesc struct {
	ID        int    `json:"id"`
	Mode      string `json:"mode"` // ordered | storm | auto
	ULen      int    `json:"upstreams"`
	Tags      bool   `json:"tags"`
	Subset    []int  `json:"subset,omitempty"` // QuickConfigureExec with the tags of these upstreams, in this order
	EmptyArgs bool   `json:"empty_args,omitempty"`
	C         int    `json:"concurrent"`
	Outcomes  []int  `json:"outcomes"` // per canonical slot (start, start+1, ...)
	Order     []int  `json:"order"`    // k-th arrival = slot Order[k]
	Cancel    int    `json:"cancel"`
	CtxKind   string `json:"ctx_kind"` // cancel | cause | parent | deadline
	Query     int    `json:"query"`
	QID       uint16 `json:"qid"`
	Garbage   int    `json:"garbage"`
	// shared-Forward workload: the tag subsets for which executables were created
	// on the same Forward before this call (empty = ""), and the one this call goes
	// through (-1 = the plugin's own Exec over the full list)
	History [][]int `json:"history,omitempty"`
	ExecIdx int     `json:"exec_idx,omitempty"`
	// rcode-space phase: the full 12-bit rcode of the reply of every slot whose
	// outcome is RCODE-x; ReplyOPT: every reply carries an OPT record (replies with
	// an rcode above 15 always do)
	Rcodes   []int `json:"rcodes,omitempty"`
	ReplyOPT bool  `json:"reply_opt,omitempty"`
	// boundary-size phase: the query is built to an exact size (EDNS0 padding,
	// filler records): SizeKind packed = Pack() gives Size bytes, no compression;
	// packed-compressed = Compress is set, names compress, Pack() gives Size bytes;
	// uncompressed = Compress is set and the message would be Size bytes without
	// compression (the packed form is shorter)
	Size     int    `json:"query_size,omitempty"`
	SizeKind string `json:"query_size_applies_to,omitempty"`
}

// rcodeAt: the rcode the reply of a slot carries (-1: the outcome is no reply).
func (cd *caseDesc) rcodeAt(slot, o int) int {
	if o == oXRcode {
		if slot >= 0 && slot < len(cd.Rcodes) {
			return cd.Rcodes[slot]
		}
		return dns.RcodeServerFailure
	}
	return rcodeOf(o)
}

func clampC(c int) int {
	if c <= 0 {
		return 1
	}
	if c > 3 {
		return 3
	}
	return c
}

func (cd *caseDesc) n() int { return clampC(cd.C) }

func (cd *caseDesc) list() []int {
	if cd.Subset != nil && !cd.EmptyArgs {
		return cd.Subset
	}
	l := make([]int, cd.ULen)
	for i := range l {
		l[i] = i
	}
	return l
}

func (cd *caseDesc) cClass() string {
	s := "c-in-range"
	if cd.C <= 0 {
		s = "c-nonpositive"
	} else if cd.C > 3 {
		s = "c-above-3"
	}
	if cd.n() > len(cd.list()) {
		s += "-wrap"
	}
	return s
}

func (cd *caseDesc) arrivalSeq() []int {
	seq := make([]int, len(cd.Order))
	for k, s := range cd.Order {
		seq[k] = cd.Outcomes[s]
	}
	return seq
}

// arrivalNames: the outcomes in arrival order, replies of the extended space
// with their rcode.
func (cd *caseDesc) arrivalNames() []string {
	out := make([]string, len(cd.Order))
	for k, s := range cd.Order {
		o := cd.Outcomes[s]
		out[k] = outcomeName[o]
		if o == oXRcode {
			out[k] = fmt.Sprintf("RCODE-%d", cd.rcodeAt(s, o))
		}
	}
	return out
}

func (cd *caseDesc) hasNever() bool {
	for _, o := range cd.Outcomes {
		if o == oNever {
			return true
		}
	}
	return false
}

func (cd *caseDesc) fingerprint() string {
	var sb strings.Builder
	fmt.Fprintf(&sb, "%s|L%d|c%d|", cd.Mode, len(cd.list()), cd.C)
	if cd.Subset != nil {
		fmt.Fprintf(&sb, "sub%v%v|", cd.Subset, cd.EmptyArgs)
	}
	for _, o := range cd.arrivalSeq() {
		sb.WriteString(outcomeName[o][:2])
	}
	fmt.Fprintf(&sb, "|ord%v|x%d", cd.Order, cd.Cancel)
	if len(cd.Rcodes) > 0 {
		fmt.Fprintf(&sb, "|rc%v%v", cd.Rcodes, cd.ReplyOPT)
	}
	if cd.Size > 0 {
		fmt.Fprintf(&sb, "|size%d/%s", cd.Size, cd.SizeKind)
	}
	if len(cd.History) > 0 {
		fmt.Fprintf(&sb, "|h%v@%d", cd.History, cd.ExecIdx)
	}
	return sb.String()
}

// nontrivial: the oracle's answer depends on the selection rule (>= 2 exchanges
// that differ, or a context that ends while exchanges are outstanding).
func (cd *caseDesc) nontrivial() bool {
	if cd.n() < 2 {
		return false
	}
	if cd.Cancel != cancelNone {
		return true
	}
	for _, o := range cd.Outcomes[1:] {
		if o != cd.Outcomes[0] {
			return true
		}
	}
	return false
}

// ---- the oracle: expected result from the statement, for one arrival order ----

type expectation struct {
	Kind string `json:"kind"` // reply | error | ctx
	At   int    `json:"at"`   // arrival index that decides (reply/error), or arrivals before the ctx ended
}

// expect is a direct transcription of the property statement: the first
// NOERROR/NXDOMAIN reply to arrive is returned; if none arrives the outcome is
// that of the last exchange to finish (its reply whatever the rcode, or an
// error); the context's error if the caller's context ends first.
func expect(seq []int, cancel int) expectation {
	if cancel == cancelPre {
		return expectation{"ctx", 0}
	}
	n := len(seq)
	for k := 0; k < n; k++ {
		if cancel == k {
			return expectation{"ctx", k}
		}
		o := seq[k]
		if isGood(o) {
			return expectation{"reply", k}
		}
		if k == n-1 {
			if isBadReply(o) {
				return expectation{"reply", k}
			}
			return expectation{"error", k}
		}
	}
	panic("unreachable")
}

// ---- in-memory upstream ----

type relCmd struct {
	outcome int
	garbage int
	rcode   int  // of a reply outcome
	opt     bool // the reply carries an OPT record
}

type invocation struct {
	up      *memUp
	seq     int
	m       []byte
	snap    []byte
	ctx     context.Context
	rel     chan relCmd
	entered time.Time
	hasDL   bool
	dl      time.Time
	slot    int
	marker  string
	outcome int
	rcode   int // rcode of the reply this invocation was told to send (-1: none)
}

type memUp struct {
	idx int
	cs  atomic.Pointer[caseRun]
}

var errScripted = errors.New("c14: scripted upstream failure")
var errLate = errors.New("c14: upstream called after the case was closed")

func (u *memUp) Close() error { return nil }

var _ upstream.Upstream = (*memUp)(nil)

func (u *memUp) ExchangeContext(ctx context.Context, m []byte) (*[]byte, error) {
	c := u.cs.Load()
	now := time.Now()
	inv := &invocation{up: u, m: m, snap: append([]byte(nil), m...), ctx: ctx, rel: make(chan relCmd, 1), entered: now, slot: -1, outcome: -1, rcode: -1}
	inv.dl, inv.hasDL = ctx.Deadline()
	if !c.addEntry(inv) {
		return nil, errLate
	}
	// --- checks at hand-over ---
	if !bytes.Equal(inv.snap, c.want) {
		if c.cd.Size > 0 {
			c.violate("payload-differs-from-packed-query-at-boundary-size", fmt.Sprintf("query built to %d bytes (%s; Pack(qCtx.Q()) = %d bytes): upstream #%d received %d bytes that differ from it, first difference at offset %d; received %s; want %s",
				c.cd.Size, c.cd.SizeKind, len(c.want), u.idx, len(inv.snap), firstDiff(inv.snap, c.want), describeBytes(inv.snap), hexHead(c.want)),
				map[string]any{"received_hex": hexHead(inv.snap), "want_hex": hexHead(c.want), "received": describeBytes(inv.snap), "first_difference_at": firstDiff(inv.snap, c.want)})
		} else {
			c.violate("payload-differs-from-packed-query", fmt.Sprintf("upstream #%d received %d bytes that differ from Pack(qCtx.Q()) (%d bytes)", u.idx, len(inv.snap), len(c.want)),
				map[string]any{"received_hex": fmt.Sprintf("%x", inv.snap), "want_hex": fmt.Sprintf("%x", c.want)})
		}
	} else if c.cd.Size > 0 {
		rep.Count("boundary_size_payloads_identical_to_packed_query", 1)
	}
	slack := time.Duration(-1)
	if inv.hasDL {
		slack = inv.dl.Sub(now)
	}
	if !inv.hasDL || slack > 5*time.Second+time.Millisecond {
		c.violate("upstream-ctx-without-5s-bound", fmt.Sprintf("the context handed to upstream #%d does not end within 5 s of the query (has deadline=%v, deadline-now=%v): a helper goroutine waiting for a silent upstream outlives the 5 s timeout", u.idx, inv.hasDL, slack), nil)
		inv.hasDL = false
	} else {
		rep.Count("upstream_ctx_deadline_checked", 1)
		minSlack.observe(slack)
	}

	var cmd relCmd
	if c.cd.Mode == "auto" {
		cmd = relCmd{outcome: oNoErr}
	} else {
		cmd = <-inv.rel
	}

	// --- the private copy must still be intact, whatever the others did ---
	if !bytes.Equal(m, inv.snap) {
		c.violate("payload-modified-after-handover", fmt.Sprintf("the query bytes handed to upstream #%d changed while it was working on them (another upstream scribbled over its own payload, or the buffer was released): payloads are not private copies", u.idx),
			map[string]any{"at_handover_hex": fmt.Sprintf("%x", inv.snap), "now_hex": fmt.Sprintf("%x", m)})
	} else {
		rep.Count("payload_intact_at_release", 1)
	}
	// (the payload is only read: an Upstream "MUST NOT keep or modify m", and the statement
	// does not require the payloads of the c exchanges to be private copies)

	switch cmd.outcome {
	case oNoErr, oNX, oServfail, oRefused, oXRcode:
		b, err := buildReplyX(c.want, cmd.rcode, inv.marker, cmd.opt)
		if err != nil {
			rep.Inconclusive("harness could not build a reply: %v", err)
			return nil, errScripted
		}
		bp := pool.GetBuf(len(b))
		copy(*bp, b)
		return bp, nil
	case oGarbage:
		b := garbage(cmd.garbage, c.want)
		bp := pool.GetBuf(len(b))
		copy(*bp, b)
		return bp, nil
	case oNever:
		if !inv.hasDL {
			// already reported; do not hang the run
			return nil, errScripted
		}
		t := time.NewTimer(50 * time.Second) // 10 x nominal
		defer t.Stop()
		select {
		case <-ctx.Done():
			rep.Count("never_upstreams_ended_by_their_ctx", 1)
			maxNever.observe(time.Since(now))
			return nil, ctx.Err()
		case <-t.C:
			c.violate("upstream-ctx-never-ended", fmt.Sprintf("a silent upstream #%d was still waiting 50 s after the query: its context did not end", u.idx), nil)
			return nil, errScripted
		}
	default:
		return nil, errScripted
	}
}

const markerName = "marker.c14.verif."

func buildReply(q []byte, rcode int, marker string) ([]byte, error) {
	return buildReplyX(q, rcode, marker, false)
}

// buildReplyX builds a reply with any rcode of the 12-bit space: the low 4 bits
// go into the header, the upper 8 bits into the OPT record (RFC 6891), which is
// added if opt is set or the rcode needs it.
func buildReplyX(q []byte, rcode int, marker string, opt bool) ([]byte, error) {
	m, err := wire.Parse(q)
	if err != nil || len(m.Questions) != 1 {
		return nil, fmt.Errorf("query unparsable: %v", err)
	}
	if rcode < 0 || rcode > 0xFFF {
		return nil, fmt.Errorf("rcode %d outside the 12-bit space", rcode)
	}
	qq := m.Questions[0]
	b := wire.NewBuilder(m.ID, 0x8180|uint16(rcode&0xF)).Question(qq.RawName, qq.Type, qq.Class)
	if rcode == dns.RcodeSuccess {
		b.RR(0, qq.RawName, dns.TypeA, dns.ClassINET, 60, []byte{192, 0, 2, 53})
	}
	b.RR(2, wire.EncodeName(markerName), dns.TypeTXT, dns.ClassINET, 0, wire.TXTRdata(marker))
	if opt || rcode > 0xF {
		b.OPT(1232, uint8(rcode>>4), 0, false, 0, nil)
	}
	return b.Bytes(), nil
}

// describeBytes renders received bytes for a witness; the fill patterns of the
// buffer-pool sanitizer are named (a pool buffer that was handed out but never
// written, or one that has been released).
func describeBytes(b []byte) string {
	if len(b) > 0 {
		same := true
		for _, x := range b {
			if x != b[0] {
				same = false
				break
			}
		}
		if same {
			what := ""
			switch b[0] {
			case 0xA5:
				what = " = content of a pool buffer that was obtained but never written (sanitizer fill)"
			case 0xDD:
				what = " = content of a pool buffer that has been released (sanitizer poison)"
			case 0xEE:
				what = " = a payload another upstream had already scribbled over"
			}
			return fmt.Sprintf("%d x 0x%02x%s", len(b), b[0], what)
		}
	}
	return hexHead(b)
}

func garbage(kind int, q []byte) []byte {
	switch kind % 5 {
	case 0:
		return []byte{q[0], q[1], 0x81} // shorter than a header
	case 1:
		return []byte{} // nothing
	case 2: // question name is a compression pointer to nowhere
		b := make([]byte, 12)
		copy(b, q[:2])
		b[2], b[3], b[5] = 0x81, 0x80, 1
		return append(b, 0xC0, 0xFF, 0, 1, 0, 1)
	case 3: // NOERROR header, truncated inside the question name
		b := append([]byte(nil), q[:12]...)
		b[2], b[3] = 0x81, 0x80
		return append(b, 63, 'a', 'b')
	default: // answer count 1, rdlength beyond the message
		m, err := wire.Parse(q)
		if err != nil {
			return []byte{1, 2, 3}
		}
		qq := m.Questions[0]
		b := wire.NewBuilder(m.ID, 0x8180).Question(qq.RawName, qq.Type, qq.Class).Bytes()
		b[7] = 1
		b = append(b, 0xC0, 12, 0, 1, 0, 1, 0, 0, 0, 60, 0x7F, 0xFF, 1, 2)
		return b
	}
}

// ---- durations observed (evidence) ----

type durStat struct {
	mu  sync.Mutex
	min time.Duration
	max time.Duration
	n   int
}

func (d *durStat) observe(v time.Duration) {
	d.mu.Lock()
	if d.n == 0 || v < d.min {
		d.min = v
	}
	if v > d.max {
		d.max = v
	}
	d.n++
	d.mu.Unlock()
}

var minSlack, maxNever durStat

// ---- one running case ----

type caseRun struct {
	cd   *caseDesc
	want []byte

	mu             sync.Mutex
	invs           []*invocation
	late           int
	delivered      map[int]int
	deliveredTotal int
	execDone       bool
	execErr        error
	finished       bool
	notify         chan struct{}

	short    bool // fewer than n upstream calls seen within the watchdog
	start    int  // start index of the cyclic run if it is determined, else -1
	judged   bool
	observed map[string]any
}

func (c *caseRun) signal() {
	select {
	case c.notify <- struct{}{}:
	default:
	}
}

func (c *caseRun) addEntry(inv *invocation) bool {
	c.mu.Lock()
	if c.finished {
		c.late++
		c.mu.Unlock()
		return false
	}
	inv.seq = len(c.invs)
	inv.marker = fmt.Sprintf("case%d/inv%d/up%d", c.cd.ID, inv.seq, inv.up.idx)
	c.invs = append(c.invs, inv)
	c.mu.Unlock()
	c.signal()
	return true
}

func (c *caseRun) hookDelivered(u *memUp) {
	c.mu.Lock()
	c.delivered[u.idx]++
	c.deliveredTotal++
	c.mu.Unlock()
	c.signal()
}

func (c *caseRun) wait(d time.Duration, cond func() bool) bool {
	t := time.NewTimer(d)
	defer t.Stop()
	for {
		c.mu.Lock()
		ok := cond()
		c.mu.Unlock()
		if ok {
			return true
		}
		select {
		case <-c.notify:
		case <-t.C:
			c.mu.Lock()
			ok = cond()
			c.mu.Unlock()
			return ok
		}
	}
}

func (c *caseRun) violate(key, what string, more map[string]any) {
	noteViolation()
	w := map[string]any{"case": c.cd, "detail": more}
	c.mu.Lock()
	if c.observed != nil {
		w["observed"] = c.observed
	}
	c.mu.Unlock()
	rep.Violation(key, what, w)
}

// fastFail is set once any violation has been recorded (it only silences the
// "nothing observed" inconclusive checks at the end). Liveness watchdogs are
// shortened per class: once a class of hang has been witnessed with the full
// bound, later cases of the same class (same violation key) wait only briefly,
// so that a broken tree is reported within the tier's budget.
var fastFail atomic.Bool

func noteViolation() { fastFail.Store(true) }

var fastClass sync.Map

// abortRun: helper goroutines are stuck for good; skip the remaining cases.
var (
	abortRun atomic.Bool
	stuckN   atomic.Int64
)

func wd(class string, normal time.Duration) time.Duration {
	if _, ok := fastClass.Load(class); ok {
		return 100 * time.Millisecond
	}
	return normal
}

func wdExpired(class string) { fastClass.Store(class, true) }

// shortSeen counts cases in which fewer upstream calls than expected showed up
// within the watchdog. Such a case is never judged by that timeout (the verdict
// is taken from the final call count at the next quiescent point); the count
// only shortens the wait for the following cases so that a tree with a wrong
// clamp is reported quickly.
var shortSeen atomic.Int64

func entryWatchdog() time.Duration {
	switch n := shortSeen.Load(); {
	case n >= 4:
		return 40 * time.Millisecond
	case n >= 1:
		return 300 * time.Millisecond
	}
	return 5 * time.Second
}

var errCustomCause = errors.New("c14: caller gave up (custom cause)")

type ctxCtl struct {
	ctx    context.Context
	cancel func()
}

func makeCtx(kind string, pre bool) ctxCtl {
	switch kind {
	case "cause":
		ctx, cancel := context.WithCancelCause(context.Background())
		return ctxCtl{ctx, func() { cancel(errCustomCause) }}
	case "parent":
		p, pc := context.WithCancel(context.Background())
		ctx, cc := context.WithTimeout(p, time.Hour)
		_ = cc
		return ctxCtl{ctx, pc}
	case "deadline":
		if pre {
			ctx, cancel := context.WithDeadline(context.Background(), time.Now().Add(-time.Second))
			return ctxCtl{ctx, cancel}
		}
	}
	ctx, cancel := context.WithCancel(context.Background())
	return ctxCtl{ctx, cancel}
}

func isCtxErr(ctx context.Context, err error) bool {
	if err == nil || ctx.Err() == nil {
		return false
	}
	if errors.Is(err, ctx.Err()) {
		return true
	}
	if cause := context.Cause(ctx); cause != nil && errors.Is(err, cause) {
		return true
	}
	return false
}

type actualResult struct {
	Kind   string `json:"kind"` // reply | error | ctx | nil-reply
	Inv    int    `json:"invocation"`
	Slot   int    `json:"slot"`
	Rcode  int    `json:"rcode"`
	Marker string `json:"marker,omitempty"`
	Err    string `json:"error,omitempty"`
	ID     uint16 `json:"id"`
}

func markerOf(r *dns.Msg) string {
	for _, rr := range r.Extra {
		if t, ok := rr.(*dns.TXT); ok && strings.EqualFold(t.Hdr.Name, markerName) && len(t.Txt) > 0 {
			return t.Txt[0]
		}
	}
	return ""
}

func tagOf(i int) string { return fmt.Sprintf("up%d", i) }

// startCandidates returns every r such that the multiset of queried upstreams
// equals {list[(r+i) mod L] : i < n}.
func startCandidates(list []int, n int, got map[int]int) []int {
	var out []int
	L := len(list)
	for r := 0; r < L; r++ {
		w := map[int]int{}
		for i := 0; i < n; i++ {
			w[list[(r+i)%L]]++
		}
		if len(w) != len(got) {
			continue
		}
		ok := true
		for k, v := range w {
			if got[k] != v {
				ok = false
				break
			}
		}
		if ok {
			out = append(out, r)
		}
	}
	return out
}

var caseLogMu sync.Mutex

// runCase executes one scripted call and judges it. The returned caseRun is
// finalised by the caller at the next quiescent point (finalize).
func runCase(cd *caseDesc, fwd *fastforward.Forward, ups []*memUp, pre sequence.Executable) *caseRun {
	n := cd.n()
	list := cd.list()
	c := &caseRun{cd: cd, delivered: map[int]int{}, notify: make(chan struct{}, 1), start: -1}
	rep.Eval(1)

	if fwd == nil {
		ups = make([]*memUp, cd.ULen)
		us := make([]upstream.Upstream, cd.ULen)
		var tags []string
		for i := range ups {
			ups[i] = &memUp{idx: i}
			us[i] = ups[i]
		}
		if cd.Tags {
			tags = make([]string, cd.ULen)
			for i := range tags {
				tags[i] = tagOf(i)
			}
		}
		var err error
		fwd, err = fastforward.VerifNewForward(us, tags, cd.C)
		if err != nil {
			rep.Inconclusive("VerifNewForward: %v", err)
			return c
		}
	}
	for _, u := range ups {
		u.cs.Store(c)
	}
	var exec sequence.Executable = fwd
	if pre != nil {
		exec = pre
		if cd.Subset != nil || cd.EmptyArgs {
			rep.Count("calls_through_tag_subsets", 1)
		}
	} else if cd.Subset != nil || cd.EmptyArgs {
		var args []string
		if !cd.EmptyArgs {
			for _, i := range cd.Subset {
				args = append(args, tagOf(i))
			}
		}
		sep := " "
		if cd.ID%3 == 0 {
			sep = "  \t"
		}
		e, err := fwd.QuickConfigureExec(strings.Join(args, sep))
		if err != nil {
			c.violate("tag-subset-rejected", fmt.Sprintf("QuickConfigureExec(%q) failed: %v", strings.Join(args, sep), err), nil)
			return c
		}
		ex, ok := e.(sequence.Executable)
		if !ok {
			rep.Inconclusive("QuickConfigureExec returned %T", e)
			return c
		}
		exec = ex
		rep.Count("calls_through_tag_subsets", 1)
	}

	var qCtx *query_context.Context
	if cd.Size > 0 {
		sq, err := sizedQuery(cd)
		if err != nil {
			rep.Inconclusive("boundary sizes: cannot build a query of %d bytes (%s): %v", cd.Size, cd.SizeKind, err)
			return c
		}
		qCtx = sq
	} else {
		qCtx = query_context.NewContext(mkQuery(cd.Query, cd.QID, cd.ID))
	}
	want, err := qCtx.Q().Pack()
	if err != nil {
		rep.Inconclusive("cannot pack query: %v", err)
		return c
	}
	c.want = want
	if cd.Size > 0 && ((cd.SizeKind == sizeUncompressed) != (len(want) < cd.Size) || len(want) > cd.Size) {
		rep.Inconclusive("boundary sizes: the query that is forwarded has %d bytes, built for %d (%s)", len(want), cd.Size, cd.SizeKind)
		return c
	}

	cc := makeCtx(cd.CtxKind, cd.Cancel == cancelPre)
	defer cc.cancel()
	if cd.Cancel == cancelPre {
		cc.cancel()
	}
	go func() {
		err := exec.Exec(cc.ctx, qCtx)
		c.mu.Lock()
		c.execDone, c.execErr = true, err
		c.mu.Unlock()
		c.signal()
	}()

	execW := func(why, key string, stillBlocked int) bool {
		w := wd(key, 10*time.Second)
		if c.wait(w, func() bool { return c.execDone }) {
			return true
		}
		wdExpired(key)
		c.violate(key, fmt.Sprintf("Exec had not returned %v after %s while %d queried upstream(s) were still held by the harness", w, why, stillBlocked), nil)
		return false
	}

	// ---- all queried upstreams must have been entered before the script starts ----
	if cd.Mode == "auto" {
		if !c.wait(wd("auto", 10*time.Second), func() bool { return c.deliveredTotal >= n && c.execDone }) {
			wdExpired("auto")
			c.short = true
		}
	} else if !c.wait(entryWatchdog(), func() bool { return len(c.invs) >= n }) {
		c.short = true
		shortSeen.Add(1)
	}
	c.mu.Lock()
	invs := append([]*invocation(nil), c.invs...)
	c.mu.Unlock()

	got := map[int]int{}
	for _, inv := range invs {
		got[list2up(inv)]++
	}
	cands := startCandidates(list, n, got)
	start := -1
	if len(cands) > 0 {
		start = cands[0]
	}
	// canonical slots
	slots := make([]*invocation, 0, len(invs))
	if start >= 0 && len(invs) == n {
		used := map[*invocation]bool{}
		for i := 0; i < n; i++ {
			w := list[(start+i)%len(list)]
			for _, inv := range invs {
				if !used[inv] && inv.up.idx == w {
					used[inv] = true
					inv.slot = i
					slots = append(slots, inv)
					break
				}
			}
		}
	} else {
		sort.Slice(invs, func(i, j int) bool { return invs[i].seq < invs[j].seq })
		for i, inv := range invs {
			inv.slot = i
			slots = append(slots, inv)
		}
	}
	queried := make([]int, 0, len(invs))
	for _, inv := range slots {
		queried = append(queried, inv.up.idx)
	}
	c.mu.Lock()
	c.observed = map[string]any{"upstreams_queried_in_slot_order": queried, "list": list, "expected_queries": n, "start_candidates": cands}
	c.mu.Unlock()

	if len(invs) == n && len(cands) == 0 {
		k := "queried-set-not-a-cyclic-run"
		if cd.Subset != nil {
			k += "-tag-subset"
		}
		if n > len(list) {
			k += "-wrap"
		}
		if len(cd.History) > 0 {
			k = "queried-set-not-a-cyclic-run-shared-forward"
			if cd.Subset != nil {
				k += "-tag-subset"
			}
		}
		c.violate(k, fmt.Sprintf("the upstreams that received the query %v are not %d cyclically consecutive positions of the list %v", queried, n, list), nil)
	}
	if len(invs) == n && len(cands) == 1 && cd.Subset == nil {
		c.start = cands[0]
		startSeen(len(list), cands[0])
	}

	if cd.Mode == "auto" {
		c.finishAuto(qCtx, slots, cc)
		return c
	}

	// ---- the script ----
	seq := make([]int, 0, n)
	okShape := !c.short && len(slots) == n
	var exp expectation
	if okShape {
		seq = cd.arrivalSeq()
		exp = expect(seq, cd.Cancel)
	}
	released := 0
	blocked := func() int { return len(slots) - released }
	release := func(inv *invocation, o int) {
		inv.outcome = o
		inv.rcode = cd.rcodeAt(inv.slot, o)
		inv.rel <- relCmd{outcome: o, garbage: cd.Garbage + inv.seq, rcode: inv.rcode, opt: cd.ReplyOPT}
		released++
	}
	waitDelivered := func(target int, never bool) bool {
		w := wd("helper-goroutine-stuck", 10*time.Second)
		if never {
			w = 70 * time.Second
		}
		if c.wait(w, func() bool { return c.deliveredTotal >= target }) {
			return true
		}
		wdExpired("helper-goroutine-stuck")
		if stuckN.Add(1) >= 20 {
			// every such case leaves goroutines behind for good; stop before the
			// race runtime's goroutine limit turns the finding into a crash
			abortRun.Store(true)
		}
		c.mu.Lock()
		dt := c.deliveredTotal
		c.mu.Unlock()
		c.violate("helper-goroutine-stuck", fmt.Sprintf("forward.result.delivered fired %d times %v after %d upstream(s) had returned: a helper goroutine neither delivered nor abandoned its result", dt, w, target), nil)
		return false
	}

	switch {
	case !okShape:
		// wrong number of upstream calls: unwind, judged in finalize()
		for _, inv := range slots {
			release(inv, oErr)
		}
		if !c.wait(wd("unwind", 10*time.Second), func() bool { return c.execDone }) {
			wdExpired("unwind")
		}
	case cd.Mode == "storm":
		// no ordering: everything at once, ctx (if scripted) somewhere in between
		for k, s := range cd.Order {
			if cd.Cancel == k {
				cc.cancel()
			}
			release(slots[s], cd.Outcomes[s])
		}
		waitDelivered(n, false)
		execW("all upstreams had answered", "no-return-after-last-exchange", 0)
	default:
		execWaited := false
		for k := 0; k < n; k++ {
			if cd.Cancel == k {
				cc.cancel()
				if exp.Kind == "ctx" {
					execW("the caller's context ended", "call-outlives-its-context", blocked())
					execWaited = true
				}
			} else if k == 0 && cd.Cancel == cancelPre {
				execW("being called with an ended context", "call-outlives-its-context", blocked())
				execWaited = true
			}
			inv := slots[cd.Order[k]]
			o := cd.Outcomes[cd.Order[k]]
			release(inv, o)
			if !waitDelivered(k+1, o == oNever) {
				break
			}
			rep.Count("arrivals_ordered_by_hook", 1)
			if !execWaited && exp.Kind != "ctx" && exp.At == k {
				key := "no-return-after-last-exchange"
				why := "the last exchange finished"
				if isGood(o) && blocked() > 0 {
					key = "good-answer-masked-by-blocked-upstream"
					why = "a " + outcomeName[o] + " reply had been delivered"
				}
				execW(why, key, blocked())
				execWaited = true
			}
		}
	}
	// unwind whatever is still held
	for _, inv := range slots {
		if inv.outcome < 0 {
			release(inv, oErr)
		}
	}
	if !c.wait(wd("unwind", 10*time.Second), func() bool { return c.deliveredTotal >= len(slots) }) {
		wdExpired("unwind")
	}
	done := c.wait(wd("unwind", 20*time.Second), func() bool { return c.execDone })
	if !done {
		wdExpired("unwind")
	}
	c.mu.Lock()
	c.finished = true
	execErr := c.execErr
	var stray []*invocation
	for _, inv := range c.invs {
		if inv.outcome < 0 {
			stray = append(stray, inv)
		}
	}
	c.mu.Unlock()
	for _, inv := range stray { // entered after the script was laid out
		inv.outcome = oErr
		inv.rel <- relCmd{outcome: oErr}
	}
	if !done {
		rep.Count("calls_that_never_returned", 1)
		return c
	}
	if !okShape {
		return c
	}

	// ---- judge ----
	act := classify(cc.ctx, execErr, qCtx, slots)
	c.mu.Lock()
	c.observed["arrival_outcomes"] = cd.arrivalNames()
	if len(cd.Rcodes) > 0 {
		rcs := make([]int, len(seq))
		for k, s := range cd.Order {
			rcs[k] = cd.rcodeAt(s, cd.Outcomes[s])
		}
		c.observed["arrival_rcodes"] = rcs
	}
	c.observed["expected"] = exp
	c.observed["actual"] = act
	c.mu.Unlock()
	c.judged = true

	if cd.Mode == "storm" {
		allowed := allowedStorm(cd)
		if !allowed[resKey(act.Kind, act.Slot)] {
			c.violate("storm-result-not-allowed-by-any-order", fmt.Sprintf("with all upstreams released at once the call returned %s (slot %d), which no arrival order/cancellation point allows; allowed: %v", act.Kind, act.Slot, keysOf(allowed)), nil)
		} else {
			rep.Count("storm_results_allowed", 1)
		}
	} else {
		c.judgeOrdered(exp, act, slots, seq)
	}

	// the query message itself must be what it was
	if after, err := qCtx.Q().Pack(); err != nil || !bytes.Equal(after, want) {
		c.violate("query-message-modified", "qCtx.Q() packs to different bytes after the call", nil)
	}
	if cd.nontrivial() {
		rep.Nontrivial(cd.fingerprint())
	}
	rep.SetAdd("arrival_sequences", strings.Join(names(seq), ">")+fmt.Sprintf("|x%d", cd.Cancel))
	rep.Count("result:"+exp.Kind, 1)
	if rep.WantSample() && cd.nontrivial() && cd.ID%97 == 0 {
		rep.Sample(map[string]any{"case": cd, "observed": c.observed})
	}
	return c
}

func list2up(inv *invocation) int { return inv.up.idx }

func names(seq []int) []string {
	out := make([]string, len(seq))
	for i, o := range seq {
		out[i] = outcomeName[o]
	}
	return out
}

func classify(ctx context.Context, err error, qCtx *query_context.Context, slots []*invocation) actualResult {
	a := actualResult{Inv: -1, Slot: -1, Rcode: -1}
	if err != nil {
		a.Err = err.Error()
		if isCtxErr(ctx, err) {
			a.Kind = "ctx"
		} else {
			a.Kind = "error"
		}
		if qCtx.R() != nil {
			a.Kind += "+reply-set"
		}
		return a
	}
	r := qCtx.R()
	if r == nil {
		a.Kind = "nil-reply"
		return a
	}
	a.Kind = "reply"
	a.Rcode = r.Rcode
	a.ID = r.Id
	a.Marker = markerOf(r)
	for _, inv := range slots {
		if inv.marker == a.Marker {
			a.Inv, a.Slot = inv.seq, inv.slot
		}
	}
	return a
}

func (c *caseRun) judgeOrdered(exp expectation, act actualResult, slots []*invocation, seq []int) {
	cd := c.cd
	wantClass := exp.Kind
	var wantInv *invocation
	if exp.Kind == "reply" {
		wantInv = slots[cd.Order[exp.At]]
		if isGood(seq[exp.At]) {
			wantClass = "first-good-reply"
		} else {
			wantClass = "last-reply"
		}
	}
	gotClass := act.Kind
	if act.Kind == "reply" {
		switch {
		case act.Inv < 0:
			gotClass = "unknown-reply"
		case isGood(slots[indexOfSlot(slots, act.Slot)].outcome):
			gotClass = "good-reply"
		default:
			gotClass = "bad-rcode-reply"
		}
	}
	ok := false
	switch exp.Kind {
	case "ctx":
		ok = act.Kind == "ctx"
	case "error":
		ok = act.Kind == "error"
	case "reply":
		ok = act.Kind == "reply" && wantInv != nil && act.Marker == wantInv.marker && act.Rcode == wantInv.rcode && act.ID == cd.QID
	}
	if ok {
		rep.Count("results_as_stated", 1)
		return
	}
	key := "result-want-" + wantClass + "-got-" + gotClass
	what := fmt.Sprintf("arrival order %v, ctx end point %d: the statement gives %s", cd.arrivalNames(), cd.Cancel, describeExp(exp, cd.arrivalNames()))
	if act.Kind == "reply" {
		what += fmt.Sprintf("; the call returned the reply of arrival #%d (rcode %d, marker %q, id %d)", arrivalIndex(cd, act.Slot), act.Rcode, act.Marker, act.ID)
		if wantInv != nil && act.Marker == wantInv.marker {
			key = "result-right-upstream-but-altered-reply"
			what += fmt.Sprintf("; that upstream had sent rcode %d", wantInv.rcode)
		} else if act.Inv >= 0 {
			if got := slots[indexOfSlot(slots, act.Slot)]; got.outcome == oXRcode {
				// the reply that was preferred carries an rcode of the extended space
				key += "-extended-rcode"
				what += fmt.Sprintf("; that upstream had sent rcode %d = header nibble %d + OPT extended-rcode byte %d, which is neither NOERROR (0) nor NXDOMAIN (3)", got.rcode, got.rcode&0xF, got.rcode>>4)
			}
		}
	} else {
		what += fmt.Sprintf("; the call returned %s (%s)", act.Kind, act.Err)
	}
	c.violate(key, what, nil)
}

func indexOfSlot(slots []*invocation, slot int) int {
	for i, inv := range slots {
		if inv.slot == slot {
			return i
		}
	}
	return 0
}

func arrivalIndex(cd *caseDesc, slot int) int {
	for k, s := range cd.Order {
		if s == slot {
			return k
		}
	}
	return -1
}

func describeExp(e expectation, seq []string) string {
	switch e.Kind {
	case "ctx":
		return fmt.Sprintf("the context's error (context ended after %d arrivals)", e.At)
	case "error":
		return fmt.Sprintf("an error (last exchange, arrival #%d, %s)", e.At, seq[e.At])
	}
	return fmt.Sprintf("the %s reply of arrival #%d", seq[e.At], e.At)
}

func resKey(kind string, slot int) string {
	if kind == "reply" {
		return fmt.Sprintf("reply@slot%d", slot)
	}
	return kind
}

func keysOf(m map[string]bool) []string {
	var out []string
	for k := range m {
		out = append(out, k)
	}
	sort.Strings(out)
	return out
}

// allowedStorm: union of the statement's outcome over every arrival order and,
// if the context is ended concurrently, every point at which it may take effect.
func allowedStorm(cd *caseDesc) map[string]bool {
	n := cd.n()
	out := map[string]bool{}
	cancels := []int{cancelNone}
	if cd.Cancel != cancelNone {
		for k := 0; k < n; k++ {
			cancels = append(cancels, k)
		}
	}
	for _, p := range perms(n) {
		seq := make([]int, n)
		for k, s := range p {
			seq[k] = cd.Outcomes[s]
		}
		for _, x := range cancels {
			e := expect(seq, x)
			if e.Kind == "reply" {
				out[resKey("reply", p[e.At])] = true
			} else {
				out[e.Kind] = true
			}
		}
	}
	return out
}

func perms(n int) [][]int {
	if n == 1 {
		return [][]int{{0}}
	}
	var out [][]int
	var rec func(cur []int, used int)
	rec = func(cur []int, used int) {
		if len(cur) == n {
			out = append(out, append([]int(nil), cur...))
			return
		}
		for i := 0; i < n; i++ {
			if used&(1<<i) == 0 {
				rec(append(cur, i), used|1<<i)
			}
		}
	}
	rec(nil, 0)
	return out
}

func (c *caseRun) finishAuto(qCtx *query_context.Context, slots []*invocation, cc ctxCtl) {
	c.mu.Lock()
	c.finished = true
	done, err := c.execDone, c.execErr
	c.mu.Unlock()
	if !done {
		c.violate("no-return-after-last-exchange", "Exec did not return although every upstream answered NOERROR at once", nil)
		return
	}
	act := classify(cc.ctx, err, qCtx, slots)
	if act.Kind != "reply" || act.Rcode != 0 || act.Inv < 0 {
		c.violate("result-want-first-good-reply-got-"+act.Kind, fmt.Sprintf("every queried upstream answered NOERROR immediately but the call returned %+v", act), nil)
		return
	}
	c.judged = true
	rep.Count("auto_calls_ok", 1)
}

// finalize is called at a quiescent point (no goroutine of the forward package
// left): the number of upstream calls this case caused is final.
func (c *caseRun) finalize() {
	c.mu.Lock()
	total := len(c.invs) + c.late
	c.finished = true
	per := map[int]int{}
	for _, inv := range c.invs {
		per[inv.up.idx]++
	}
	deliv := c.deliveredTotal
	c.mu.Unlock()
	n := c.cd.n()
	if total != n {
		dir := "fewer"
		if total > n {
			dir = "more"
		}
		c.violate("queried-"+dir+"-than-clamped-concurrency-"+c.cd.cClass(), fmt.Sprintf("concurrent=%d over a list of %d: %d upstream exchanges expected (clamp to 1..3), %d observed once all helper goroutines had ended", c.cd.C, len(c.cd.list()), n, total), map[string]any{"per_upstream": per})
		return
	}
	if c.short {
		rep.Count("cases_not_judged_entry_watchdog", 1)
	}
	if deliv != total {
		rep.Count("hook_count_mismatch", 1)
	}
}

// ---- start-index statistics ----

var (
	startMu   sync.Mutex
	startHist = map[int][]int{}
)

func startSeen(L, r int) {
	startMu.Lock()
	h := startHist[L]
	if h == nil {
		h = make([]int, L)
		startHist[L] = h
	}
	h[r]++
	startMu.Unlock()
}
