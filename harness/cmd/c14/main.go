// C14 — forward returns the first good answer among the queried upstreams.
//
// In-memory upstreams (fastforward.VerifNewForward) block until the harness
// releases them with a scripted outcome; the next one is released only after the
// hook point "forward.result.delivered" fired for the previous one, so that the
// arrival order is a fact, not a sleep. The expected result is computed from the
// property statement for exactly that arrival order and context end point.
// Further monitors: which upstreams received the query (cyclic run of
// clamp(c,1,3) positions, wrapping), what bytes they received (Pack(Q()),
// intact while an upstream works on them: released or reused buffers show through the pool sanitizer's poison), the context each
// upstream is given (ends within 5 s), helper goroutines gone at quiescent
// points (lib/leak), buffer-pool sanitizer, race detector (driver), start index
// non-degeneracy, a loopback variant with the real NewForward / config path, and
// the error-path phase (errpath.go): unpackable queries, failing upstreams and
// ending contexts mixed into concurrent traffic on several Forward instances.
package main

import (
	"fmt"
	"math/rand"
	"os"
	"runtime"
	"strings"
	"sync"
	"sync/atomic"
	"time"

	"github.com/IrineSistiana/mosdns/v5/pkg/upstream"
	fastforward "github.com/IrineSistiana/mosdns/v5/plugin/executable/forward"
	"github.com/IrineSistiana/mosdns/v5/plugin/executable/sequence"
	"github.com/miekg/dns"

	"verifharness/lib/evid"
	"verifharness/lib/leak"
	"verifharness/lib/poolsan"
	"verifharness/lib/sched"
)

var (
	rep     *evid.Reporter
	caselog *evid.CaseLog

	hookTotal   atomic.Int64
	hookForeign atomic.Int64
	nextID      atomic.Int64
)

const fwdFrames = "mosdns/v5/plugin/executable/forward."

func hook(_ string, arg any) {
	hookTotal.Add(1)
	if _, ok := arg.(*epUp); ok {
		epDelivered.Add(1)
		return
	}
	u, ok := arg.(*memUp)
	if !ok {
		hookForeign.Add(1)
		return
	}
	if c := u.cs.Load(); c != nil {
		c.hookDelivered(u)
	}
}

func mkQuery(variant int, id uint16, caseID int) *dns.Msg {
	m := new(dns.Msg)
	name := fmt.Sprintf("q%d.c14.example.", caseID)
	switch variant % 5 {
	case 0:
		m.SetQuestion(name, dns.TypeA)
	case 1:
		m.SetQuestion("a-rather-long-label-that-makes-the-message-a-bit-bigger."+name, dns.TypeAAAA)
		m.SetEdns0(1232, true)
	case 2:
		m.SetQuestion(name, dns.TypeTXT)
		o := new(dns.OPT)
		o.Hdr.Name, o.Hdr.Rrtype = ".", dns.TypeOPT
		o.SetUDPSize(4096)
		o.Option = append(o.Option, &dns.EDNS0_SUBNET{Code: dns.EDNS0SUBNET, Family: 1, SourceNetmask: 24, Address: []byte{198, 51, 100, 0}})
		m.Extra = append(m.Extra, o)
		m.Compress = true
	case 3:
		m.SetQuestion(name, dns.TypeMX)
		m.CheckingDisabled = true
		m.RecursionDesired = false
	default:
		m.SetQuestion("MiXeD-CaSe."+name, dns.TypeHTTPS)
		m.AuthenticatedData = true
		m.Question[0].Qclass = dns.ClassCHAOS
	}
	m.Id = id
	return m
}

// ---- case generators ----

func newID() int { return int(nextID.Add(1)) }

var ctxKinds = []string{"cancel", "cause", "parent", "deadline"}

func decorate(cd *caseDesc, rng *rand.Rand) *caseDesc {
	cd.ID = newID()
	cd.Query = rng.Intn(5)
	cd.QID = uint16(rng.Intn(65536))
	cd.Garbage = rng.Intn(5)
	cd.CtxKind = ctxKinds[rng.Intn(len(ctxKinds))]
	return cd
}

var coreC = []int{-1, 0, 1, 2, 3, 5}

// coreProduct: |U| in 1..4 x c in {-1,0,1,2,3,5} x all outcome vectors x all
// arrival orders x {no cancel, cancel before the first arrival, between arrivals}.
func coreProduct(rng *rand.Rand) []*caseDesc {
	var out []*caseDesc
	for ulen := 1; ulen <= 4; ulen++ {
		for _, c := range coreC {
			n := clampC(c)
			vecs := 1
			for i := 0; i < n; i++ {
				vecs *= numOutcomes
			}
			for v := 0; v < vecs; v++ {
				oc := make([]int, n)
				x := v
				for i := range oc {
					oc[i] = x % numOutcomes
					x /= numOutcomes
				}
				for _, p := range perms(n) {
					for cancel := -1; cancel < n; cancel++ {
						cx := cancel
						if cx == -1 {
							cx = cancelNone
						}
						out = append(out, decorate(&caseDesc{Mode: "ordered", ULen: ulen, C: c, Outcomes: oc, Order: p, Cancel: cx}, rng))
					}
				}
			}
		}
	}
	return out
}

var wideC = []int{-3, -1, 0, 1, 2, 2, 3, 3, 3, 4, 5, 100}

func wideCase(rng *rand.Rand, mode string) *caseDesc {
	cd := &caseDesc{Mode: mode, ULen: 1 + rng.Intn(6), C: wideC[rng.Intn(len(wideC))]}
	switch x := rng.Intn(100); {
	case x < 40:
		cd.Tags = true
		k := 1 + rng.Intn(4)
		dup := rng.Intn(10) == 0
		perm := rng.Perm(cd.ULen)
		for i := 0; i < k; i++ {
			if dup {
				cd.Subset = append(cd.Subset, rng.Intn(cd.ULen))
			} else if i < len(perm) {
				cd.Subset = append(cd.Subset, perm[i])
			}
		}
	case x < 50:
		cd.Tags = true
		cd.EmptyArgs = true
	case x < 60:
		cd.Tags = true
	}
	n := cd.n()
	cd.Outcomes = make([]int, n)
	for i := range cd.Outcomes {
		if mode == "storm" {
			cd.Outcomes[i] = rng.Intn(numOutcomes - 1) // no silent upstreams in storms
		} else {
			cd.Outcomes[i] = rng.Intn(numOutcomes)
		}
	}
	cd.Order = rng.Perm(n)
	cd.Cancel = cancelNone
	if rng.Intn(2) == 0 {
		cd.Cancel = rng.Intn(n+1) - 1
		if mode == "storm" && cd.Cancel == cancelPre {
			cd.Cancel = 0
		}
	}
	return decorate(cd, rng)
}

// ---- execution of case lists ----

var judgedCore atomic.Int64

func quiesce(where string) bool {
	bound := 30 * time.Second
	if abortRun.Load() {
		bound = 3 * time.Second
	}
	left := leak.WaitNone([]string{fwdFrames}, nil, bound)
	rep.Count("quiescent_points_checked_for_helper_goroutines", 1)
	if len(left) == 0 {
		return true
	}
	noteViolation()
	abortRun.Store(true)
	fps := map[string]int{}
	for _, g := range left {
		fps[leak.Fingerprint(g)]++
	}
	rep.Violation("helper-goroutines-remain", fmt.Sprintf("%d goroutine(s) of the forward package still alive %v after every queried upstream had returned (%s)", len(left), bound, where),
		map[string]any{"kind": "leak", "where": where, "goroutines": len(left), "first": left[0].Text, "distinct_stacks": len(fps)})
	return false
}

func finalizeAll(runs []*caseRun, quiet bool) {
	if !quiet {
		return
	}
	for _, c := range runs {
		if c != nil {
			c.finalize()
		}
	}
}

// runPool runs cases with par of them in flight, then waits for quiescence.
func runPool(phase string, cases []*caseDesc, par int) []*caseRun {
	if len(cases) == 0 || abortRun.Load() {
		return nil
	}
	caselog.Log(map[string]any{"phase": phase, "cases": len(cases), "first": cases[0], "seed": rep.Seed})
	runs := make([]*caseRun, len(cases))
	var wg sync.WaitGroup
	ch := make(chan int)
	for w := 0; w < par; w++ {
		wg.Add(1)
		go func() {
			defer wg.Done()
			for i := range ch {
				if abortRun.Load() {
					rep.Count("cases_skipped_after_goroutine_leak", 1)
					continue
				}
				runs[i] = runCase(cases[i], nil, nil, nil)
			}
		}()
	}
	for i := range cases {
		ch <- i
	}
	close(ch)
	wg.Wait()
	finalizeAll(runs, quiesce(phase))
	for _, c := range runs {
		if c != nil && c.judged {
			rep.Count("judged:"+phase, 1)
		}
	}
	return runs
}

func split(cases []*caseDesc) (fast, slow []*caseDesc) {
	for _, c := range cases {
		if c.hasNever() {
			slow = append(slow, c)
		} else {
			fast = append(fast, c)
		}
	}
	return
}

func runOrdered(label string, cases []*caseDesc) {
	fast, slow := split(cases)
	// fast cases: GOMAXPROCS 16 / 2 / 1
	a, b := len(fast)*7/10, len(fast)*85/100
	for _, part := range []struct {
		procs int
		cs    []*caseDesc
	}{{16, fast[:a]}, {2, fast[a:b]}, {1, fast[b:]}} {
		runtime.GOMAXPROCS(part.procs)
		runPool(fmt.Sprintf("%s-fast-procs%d", label, part.procs), part.cs, 16)
	}
	runtime.GOMAXPROCS(16)
	// cases with silent upstreams cost 5 s each: run them together (the race
	// runtime allows ~8k goroutines; a case has at most 5)
	const batch = 1200
	for i := 0; i < len(slow); i += batch {
		j := i + batch
		if j > len(slow) {
			j = len(slow)
		}
		t0 := time.Now()
		runPool(fmt.Sprintf("%s-silent-batch%d", label, i/batch), slow[i:j], j-i)
		rep.Max("slowest_silent_batch_ms", time.Since(t0).Milliseconds())
		rep.Count("silent_batches", 1)
	}
}

// ---- several tag-subset executables on ONE Forward ----
//
// A configuration references the same forward plugin with different tag
// subsets; each reference is its own upstream list U. After every new
// executable the full list and every executable created so far are exercised
// again: the queried-set oracle (cyclic run over that executable's own list) and
// the result oracle apply to each call.

type sharedScript struct {
	ULen    int
	C       int
	Subsets [][]int // empty slice = QuickConfigureExec("")
}

func genShared(rng *rand.Rand) sharedScript {
	sc := sharedScript{ULen: 3 + rng.Intn(3), C: []int{1, 2, 3, 3, 5, 0}[rng.Intn(6)]}
	k := 3 + rng.Intn(3)
	for i := 0; i < k; i++ {
		var sub []int
		switch x := rng.Intn(100); {
		case x < 30: // single tag, not the first upstream
			sub = []int{1 + rng.Intn(sc.ULen-1)}
		case x < 65: // reordering / non-prefix subset
			p := rng.Perm(sc.ULen)
			sub = p[:2+rng.Intn(sc.ULen-1)]
		case x < 80: // duplicates
			for j := 0; j < 2+rng.Intn(3); j++ {
				sub = append(sub, rng.Intn(sc.ULen))
			}
		case x < 90: // prefix
			for j := 0; j <= rng.Intn(sc.ULen); j++ {
				sub = append(sub, j)
			}
		default:
			sub = []int{}
		}
		sc.Subsets = append(sc.Subsets, sub)
	}
	return sc
}

// runShared executes a script; only is >= -1 restricts the calls after the last
// executable was created to that one target (replay).
func runShared(sc sharedScript, rng *rand.Rand, only int, restrict bool, reps int) []*caseRun {
	ups := make([]*memUp, sc.ULen)
	us := make([]upstream.Upstream, sc.ULen)
	tags := make([]string, sc.ULen)
	for i := range ups {
		ups[i] = &memUp{idx: i}
		us[i] = ups[i]
		tags[i] = tagOf(i)
	}
	fwd, err := fastforward.VerifNewForward(us, tags, sc.C)
	if err != nil {
		rep.Inconclusive("VerifNewForward: %v", err)
		return nil
	}
	var runs []*caseRun
	var execs []sequence.Executable
	for k, sub := range sc.Subsets {
		var args []string
		for _, i := range sub {
			args = append(args, tagOf(i))
		}
		e, err := fwd.QuickConfigureExec(strings.Join(args, " "))
		if err != nil {
			rep.Violation("tag-subset-rejected", fmt.Sprintf("QuickConfigureExec(%q) failed: %v", strings.Join(args, " "), err), map[string]any{"kind": "shared", "script": sc})
			return runs
		}
		ex, ok := e.(sequence.Executable)
		if !ok {
			rep.Inconclusive("QuickConfigureExec returned %T", e)
			return runs
		}
		execs = append(execs, ex)
		rep.Count("shared_forward_executables_created", 1)
		for t := -1; t <= k; t++ {
			if restrict && (k != len(sc.Subsets)-1 || t != only) {
				continue
			}
			for r := 0; r < reps; r++ {
				if abortRun.Load() {
					return runs
				}
				cd := &caseDesc{Mode: "ordered", ULen: sc.ULen, Tags: true, C: sc.C, History: sc.Subsets[:k+1], ExecIdx: t}
				var pre sequence.Executable = fwd
				if t >= 0 {
					pre = execs[t]
					cd.Subset = sc.Subsets[t]
					cd.EmptyArgs = len(cd.Subset) == 0
				}
				n := cd.n()
				cd.Outcomes = make([]int, n)
				for i := range cd.Outcomes {
					cd.Outcomes[i] = rng.Intn(numOutcomes - 1) // no silent upstreams: calls on one Forward are sequential
				}
				cd.Order = rng.Perm(n)
				cd.Cancel = cancelNone
				if rng.Intn(3) == 0 {
					cd.Cancel = rng.Intn(n+1) - 1
				}
				decorate(cd, rng)
				c := runCase(cd, fwd, ups, pre)
				runs = append(runs, c)
				rep.Count("shared_forward_calls", 1)
				if t == -1 {
					rep.Count("shared_forward_calls_full_list_after_subsets", 1)
				} else if t < k {
					rep.Count("shared_forward_calls_through_earlier_executables", 1)
				}
			}
		}
	}
	return runs
}

func sharedForwards(count int) {
	if abortRun.Load() {
		return
	}
	caselog.Log(map[string]any{"phase": "shared-forward", "forwards": count, "seed": rep.Seed})
	rng := rand.New(rand.NewSource(rep.Seed*31 + 5))
	scripts := make([]sharedScript, count)
	seeds := make([]int64, count)
	for i := range scripts {
		scripts[i] = genShared(rng)
		seeds[i] = rng.Int63()
	}
	all := make([][]*caseRun, count)
	var wg sync.WaitGroup
	ch := make(chan int)
	for w := 0; w < 16; w++ {
		wg.Add(1)
		go func() {
			defer wg.Done()
			for i := range ch {
				all[i] = runShared(scripts[i], rand.New(rand.NewSource(seeds[i])), 0, false, 1)
			}
		}()
	}
	for i := range scripts {
		ch <- i
	}
	close(ch)
	wg.Wait()
	quiet := quiesce("shared-forward")
	for _, runs := range all {
		finalizeAll(runs, quiet)
		for _, c := range runs {
			if c != nil && c.judged {
				rep.Count("judged:shared-forward", 1)
			}
		}
	}
}

// ---- start index: one Forward reused for many calls ----

func startDistribution() {
	type cfg struct{ L, c int }
	var cfgs []cfg
	for L := 2; L <= rep.Pick(4, 6); L++ {
		for _, c := range []int{1, 2, 3} {
			if c%L != 0 {
				cfgs = append(cfgs, cfg{L, c})
			}
		}
	}
	for _, cf := range cfgs {
		if abortRun.Load() {
			return
		}
		calls := 120 * cf.L
		if calls < 300 {
			calls = 300
		}
		ups := make([]*memUp, cf.L)
		us := make([]upstream.Upstream, cf.L)
		for i := range ups {
			ups[i] = &memUp{idx: i}
			us[i] = ups[i]
		}
		fwd, err := fastforward.VerifNewForward(us, nil, cf.c)
		if err != nil {
			rep.Inconclusive("VerifNewForward: %v", err)
			return
		}
		caselog.Log(map[string]any{"phase": "start-distribution", "upstreams": cf.L, "concurrent": cf.c})
		hist := make([]int, cf.L)
		det, shorts := 0, 0
		var runs []*caseRun
		for i := 0; i < calls; i++ {
			cd := &caseDesc{ID: newID(), Mode: "auto", ULen: cf.L, C: cf.c, Cancel: cancelNone, CtxKind: "cancel", Query: i, QID: uint16(i * 7)}
			n := cd.n()
			cd.Outcomes = make([]int, n)
			cd.Order = make([]int, n)
			for k := range cd.Order {
				cd.Order[k] = k
			}
			c := runCase(cd, fwd, ups, nil)
			runs = append(runs, c)
			if c.short {
				shorts++
				if shorts >= 3 { // judged by finalize at the quiescent point below
					break
				}
			}
			if c.start >= 0 {
				hist[c.start]++
				det++
			}
		}
		finalizeAll(runs, quiesce("start-distribution"))
		rep.Count("start_distribution_calls", int64(calls))
		rep.Extra(fmt.Sprintf("start_index_histogram_L%d_c%d", cf.L, cf.c), hist)
		distinct := 0
		for _, h := range hist {
			if h > 0 {
				distinct++
			}
		}
		w := map[string]any{"kind": "auto", "upstreams": cf.L, "concurrent": cf.c, "calls": calls, "start_index_histogram": hist}
		if det < 200 {
			if !fastFail.Load() {
				rep.Inconclusive("start index determinable in only %d of %d calls (L=%d c=%d)", det, calls, cf.L, cf.c)
			}
			continue
		}
		if distinct < 2 {
			rep.Violation("start-index-degenerate", fmt.Sprintf("over %d calls on %d upstreams (concurrent=%d) the cyclic run always started at the same position: %v", det, cf.L, cf.c, hist), w)
		} else if distinct < cf.L {
			rep.Violation("start-index-never-chosen", fmt.Sprintf("over %d calls on %d upstreams (concurrent=%d) some positions were never the start of the run (each would be missed with probability < 1e-20 if the start were uniform): %v", det, cf.L, cf.c, hist), w)
		} else {
			rep.Count("start_distribution_configs_nondegenerate", 1)
		}
	}
}

func checkGlobalStartHist() {
	startMu.Lock()
	defer startMu.Unlock()
	for L, h := range startHist {
		total, distinct := 0, 0
		for _, x := range h {
			total += x
			if x > 0 {
				distinct++
			}
		}
		rep.Extra(fmt.Sprintf("start_index_histogram_fresh_forwards_L%d", L), h)
		if L >= 2 && total >= 200 && distinct < 2 {
			rep.Violation("start-index-degenerate", fmt.Sprintf("%d calls on lists of %d upstreams all started at the same position: %v", total, L, h), map[string]any{"kind": "auto", "hist": h})
		}
	}
}

func selfCheck() {
	q, _ := mkQuery(1, 4711, 0).Pack()
	for k := 0; k < 5; k++ {
		if err := new(dns.Msg).Unpack(garbage(k, q)); err == nil {
			rep.Inconclusive("harness self-check: garbage kind %d is parsable", k)
		}
	}
	for _, rc := range []int{0, 3, 2, 5} {
		b, err := buildReply(q, rc, "m")
		r := new(dns.Msg)
		if err != nil || r.Unpack(b) != nil || r.Id != 4711 || markerOf(r) != "m" {
			rep.Inconclusive("harness self-check: scripted reply does not round-trip (rcode %d)", rc)
		}
	}
	// the oracle on the statement's own examples
	type ex struct {
		seq    []int
		cancel int
		want   expectation
	}
	for _, e := range []ex{
		{[]int{oServfail, oNoErr, oErr}, cancelNone, expectation{"reply", 1}},
		{[]int{oErr, oGarbage, oRefused}, cancelNone, expectation{"reply", 2}},
		{[]int{oServfail, oRefused, oErr}, cancelNone, expectation{"error", 2}},
		{[]int{oServfail, oNX, oNoErr}, 1, expectation{"ctx", 1}},
		{[]int{oNX, oNoErr}, 1, expectation{"reply", 0}},
		{[]int{oNever}, cancelPre, expectation{"ctx", 0}},
	} {
		if g := expect(e.seq, e.cancel); g != e.want {
			rep.Inconclusive("harness self-check: oracle gives %+v for %v/%d", g, e.seq, e.cancel)
		}
	}
}

type replayDoc struct {
	Case *caseDesc `json:"case"`
	Kind string    `json:"kind"`
}

func main() {
	rep = evid.New("C14", "exploration")
	caselog = evid.OpenCaseLog()
	poolsan.Install(func(r poolsan.Report) {
		noteViolation()
		w := map[string]any{"kind": "poolsan", "stack": r.Stack}
		what := "buffer-pool sanitizer: " + r.Kind + ": " + r.Info
		if fl := epInflightDescs(); len(fl) > 0 {
			// raised during the error-path phase: name the call(s) whose Exec is running
			w["kind"], w["calls_in_flight"] = "errpaths", fl
			var cls []string
			for _, d := range fl {
				cls = append(cls, fmt.Sprintf("%s query %q on forward #%d (%s)", d.Class, trunc(d.QName, 60), d.Fwd.Idx, d.Stage))
			}
			what += " [raised while Exec was running for: " + strings.Join(cls, "; ") + "]"
		}
		rep.Violation("poolsan-"+r.Kind, what, w)
	})
	sched.On("forward.result.delivered", hook)
	rep.SetRule("one case = one Forward.Exec (or tag-subset exec) call on in-memory upstreams: |U| x concurrent x outcome per queried upstream {NOERROR,NXDOMAIN,SERVFAIL,REFUSED,error,garbage,never} x arrival order (forced through the forward.result.delivered hook) x point at which the caller's ctx ends {never, before the call, before the first arrival, between arrivals}; thorough enumerates |U| 1..4 x c {-1,0,1,2,3,5} x 7^n x n! x cancel points completely, plus sampled tag subsets / wider |U|,c; 'storm' cases release all upstreams at once and are judged against the union over orders; non-trivial = at least 2 exchanges whose outcomes differ, or a ctx that ends while exchanges are outstanding; distinct = list length, c, subset, arrival outcome sequence, order, cancel point; 'errpaths' phase: 12 Forward instances used in parallel (9 by one caller, 3 by 2-3 callers at once), every call drawn from query classes {12 packable size/shape classes from 47 bytes to > 64 KiB, 14 classes that cannot be packed: bad label/name/rcode/rdata early, late, beyond the 8 KiB scratch, beyond 64 KiB} x upstream outcomes {mostly good, all fail} x caller ctx {never ends, ended before, ends at the first upstream}; each round starts with error-path calls run one at a time; upstreams identify the call by its unique question name and compare bytes; distinct = class, |U|, c, callers, ctx, outcome vector; 'rcode-space' phase: every rcode 0..4095 (header nibble + OPT extended byte) as the first reply to arrive with a NOERROR/NXDOMAIN reply arriving later (n = 2, 3; directly or after a failing exchange; replies with/without OPT) and as the reply of the last exchange when nothing good arrived (n = 1..3), ordered cases judged by the same oracle, the returned rcode compared on all 12 bits; 'boundary-sizes' phase: queries built to an exact size (EDNS0 padding) at every size within +-3 (thorough +-8) of 512, 1232, 8191, 65535 and each power of two 128..65536, the size applying to the packed / packed-with-compression / uncompressed length, compared byte-for-byte at every queried upstream")
	rep.Assume("'arrives' = the helper goroutine's result has been taken by (or abandoned for) the collecting loop; observed through the add-only hook forward.result.delivered, which fires after that select")
	rep.Assume("liveness clauses are restated as progress within watchdogs >= 10 s while the harness holds every other upstream (never releases it), 50 s for an upstream ctx that should end after 5 s")
	rep.Assume("a message that cannot be packed has no wire form: whatever Exec does with it is accepted as long as nothing reaches an upstream, the call returns and the buffer pool is used correctly")
	rep.Assume("a NOERROR or NXDOMAIN reply is one whose full 12-bit rcode (header bits | OPT extended-rcode byte << 4, RFC 6891) is 0 or 3")
	rep.Assume("'random start' is only checked for non-degeneracy (more than one / every position occurs as start)")
	selfCheck()
	edgeSelfCheck()

	if rep.ReplayFile != "" {
		var d replayDoc
		if err := rep.LoadReplay(&d); err != nil {
			fmt.Println("cannot load replay:", err)
			os.Exit(3)
		}
		switch {
		case d.Case != nil && len(d.Case.History) > 0:
			sc := sharedScript{ULen: d.Case.ULen, C: d.Case.C, Subsets: d.Case.History}
			var runs []*caseRun
			for i := 0; i < 10; i++ {
				runs = append(runs, runShared(sc, rand.New(rand.NewSource(rep.Seed+int64(i))), d.Case.ExecIdx, true, 4)...)
			}
			finalizeAll(runs, quiesce("replay"))
		case d.Case != nil && d.Case.Mode != "":
			var cs []*caseDesc
			for i := 0; i < 40; i++ {
				c := *d.Case
				c.ID = newID()
				cs = append(cs, &c)
			}
			runPool("replay", cs, len(cs))
		case d.Kind == "loopback":
			loopback()
		case d.Kind == "errpaths":
			errPaths()
		case d.Kind == "auto":
			startDistribution()
		default:
			rng := rand.New(rand.NewSource(rep.Seed))
			var cs []*caseDesc
			for i := 0; i < 1500; i++ {
				cs = append(cs, wideCase(rng, "ordered"))
			}
			runOrdered("replay", cs)
		}
		rep.Finish()
	}

	rng := rand.New(rand.NewSource(rep.Seed))
	core := coreProduct(rng)
	rep.Count("core_product_size", int64(len(core)))
	var ordered []*caseDesc
	if rep.Thorough() {
		ordered = core
	} else {
		for _, i := range rng.Perm(len(core))[:3500] {
			ordered = append(ordered, core[i])
		}
	}
	coreN := len(ordered)
	for i := 0; i < rep.Pick(2000, 20000); i++ {
		ordered = append(ordered, wideCase(rng, "ordered"))
	}
	runOrdered("ordered", ordered)
	rcodeSpacePhase()
	boundarySizePhase()

	var storm []*caseDesc
	for i := 0; i < rep.Pick(800, 20000); i++ {
		storm = append(storm, wideCase(rng, "storm"))
	}
	third := len(storm) / 3
	for i, procs := range []int{16, 2, 1} {
		runtime.GOMAXPROCS(procs)
		part := storm[i*third : (i+1)*third]
		if i == 2 {
			part = storm[i*third:]
		}
		runPool(fmt.Sprintf("storm-procs%d", procs), part, 16)
	}
	runtime.GOMAXPROCS(16)

	sharedForwards(rep.Pick(60, 600))
	errPaths()
	startDistribution()
	checkGlobalStartHist()
	loopback()

	// ---- evidence ----
	poolsan.Sweep()
	rep.Count("hook:forward.result.delivered", hookTotal.Load())
	rep.Count("hook_fired_for_loopback_upstreams", hookForeign.Load())
	rep.Count("poolsan_gets", poolsan.Gets.Load())
	rep.Count("poolsan_releases", poolsan.Releases.Load())
	rep.Count("poolsan_live_at_end", int64(poolsan.Live()))
	rep.Extra("upstream_ctx_deadline_minus_entry_ms", map[string]any{"min": minSlack.min.Milliseconds(), "max": minSlack.max.Milliseconds(), "n": minSlack.n})
	rep.Extra("silent_upstream_released_by_its_ctx_after_ms", map[string]any{"min": maxNever.min.Milliseconds(), "max": maxNever.max.Milliseconds(), "n": maxNever.n})
	var judged int64
	for _, p := range []string{"ordered-fast-procs16", "ordered-fast-procs2", "ordered-fast-procs1"} {
		judged += rep.Get("judged:" + p)
	}
	for i := int64(0); i < rep.Get("silent_batches"); i++ {
		judged += rep.Get(fmt.Sprintf("judged:ordered-silent-batch%d", i))
	}
	rep.Count("ordered_cases_generated", int64(len(ordered)))
	rep.Count("ordered_cases_judged", judged)
	if rep.Thorough() {
		rep.Exhaustive(judged == int64(len(ordered)) && coreN == len(core))
	}
	if hookTotal.Load() == 0 || rep.Get("arrivals_ordered_by_hook") == 0 {
		rep.Inconclusive("the hook forward.result.delivered was never observed: arrival orders were not forced")
	}
	if rep.Get("never_upstreams_ended_by_their_ctx") == 0 && !fastFail.Load() {
		rep.Inconclusive("no silent upstream was observed being released by its own context")
	}
	if judged*10 < int64(len(ordered))*9 && !fastFail.Load() {
		rep.Inconclusive("only %d of %d ordered cases could be judged", judged, len(ordered))
	}
	rep.Finish()
}
