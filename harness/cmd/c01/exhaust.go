package main

import (
	"context"
	"errors"
	"fmt"
	"math/rand"
	"runtime"
	"sort"
	"sync"
	"sync/atomic"
	"time"

	"github.com/IrineSistiana/mosdns/v5/pkg/pool"
	"github.com/IrineSistiana/mosdns/v5/pkg/upstream/transport"

	"verifharness/lib/dnsadv"
	"verifharness/lib/fakenet"
	"verifharness/lib/sched"
)

// Wire-ID exhaustion: a query that cannot be given a wire ID (or a reservation)
// fails - that is allowed. It must not disturb the queries that ARE in flight.
//
// One long-lived connection (limit 4096, what the udp upstream uses). Blocks of
// >= 100 queries with consecutive wire IDs are kept unanswered by the adversary:
// one at the IDs the connection hands out first, one directly in front of the
// 16-bit wrap (so that together they straddle 65535 -> 0) and, in the thorough
// tier, one at a seed-chosen place in the middle. Ordinary, immediately answered
// queries then drive the ID cursor round and round: every time it runs into a
// block some queries fail with "too many queries", and every later visit offers
// the connection the chance to hand out an ID whose holder is still unanswered.
// Oracle (events only): the adversary answers the OLDER holder the moment it sees
// a wire ID re-used while that holder is unanswered, every returned reply passes
// the per-call token/ID/bytes oracle, and at the end the held queries are answered
// and each must get the reply to its own question.

const exhaustSuffix = "after-failed-wire-id-assignment"

type dcExchanger struct {
	dc *transport.TraditionalDnsConn
}

var errNoReservation = errors.New("harness: connection refused the reservation")

func (e dcExchanger) ExchangeContext(ctx context.Context, m []byte) (*[]byte, error) {
	rx, _ := e.dc.ReserveNewQuery()
	if rx == nil {
		return nil, errNoReservation
	}
	return rx.ExchangeReserved(ctx, m)
}

func (e dcExchanger) Close() error { return e.dc.Close() }

type exhaustRun struct {
	b       *batch
	tr      exchanger
	adv     *connAdv
	held    []*call
	hwg     sync.WaitGroup
	hcancel []context.CancelFunc
	hmu     sync.Mutex
	heldOK  atomic.Int64
	heldErr atomic.Int64
	refused atomic.Int64 // calls that failed because no wire ID / reservation could be had
	filled  atomic.Int64
}

func (x *exhaustRun) lastWire() uint16 {
	x.adv.mu.Lock()
	defer x.adv.mu.Unlock()
	return x.adv.lastNew
}

// one ordinary (immediately answered) exchange
func (x *exhaustRun) one(w int) {
	b := x.b
	seq := int(seqCounter.Add(1))
	cl := &call{seq: seq, id: uint16(seq * 31), seenCh: make(chan struct{}), retCh: make(chan struct{})}
	cl.q = dnsadv.Query(cl.id, seq, uint32(w), "c01", 1)
	b.mu.Lock()
	b.calls[seq] = cl
	b.mu.Unlock()
	ctx, cancel := context.WithTimeout(context.Background(), 10*time.Second)
	r, err := x.tr.ExchangeContext(ctx, cl.q)
	cancel()
	close(cl.retCh)
	rep.Eval(1)
	x.filled.Add(1)
	switch {
	case err == nil:
		b.okN.Add(1)
		b.check(cl, r)
		pool.ReleaseBuf(r)
	case errors.Is(err, transport.ErrTDCTooManyQueries) || err == errNoReservation:
		x.refused.Add(1)
	default:
		b.errN.Add(1)
		rep.SetAdd("errors", "exhaust: "+err.Error())
	}
	b.mu.Lock()
	delete(b.calls, seq) // keep memory bounded
	for _, t := range cl.toks {
		delete(b.reps, t)
		delete(b.meta, t)
	}
	b.mu.Unlock()
}

// fillTo drives the cursor with ordinary queries until the next ID to be handed
// out is target (as observed by the adversary: the last query it saw had ID
// target-1). Returns false if the connection does not get there (its IDs are not
// handed out in sequence, or it died).
func (x *exhaustRun) fillTo(target uint16) bool {
	dist := func() uint16 { return target - 1 - x.lastWire() }
	var wg sync.WaitGroup
	for w := 0; w < 8; w++ {
		wg.Add(1)
		go func(w int) {
			defer wg.Done()
			for i := 0; i < 70000 && dist() > 1024; i++ {
				x.one(w)
			}
		}(w)
	}
	wg.Wait()
	if dist() > 1024 { // overshot or stuck
		return false
	}
	for i := 0; i < 8192 && x.b.errN.Load() == 0; i++ {
		if dist() == 0 {
			return true
		}
		x.one(0)
	}
	return dist() == 0
}

// hold issues n queries the adversary keeps unanswered and waits until it has
// seen them all. Returns the lowest wire ID of the block (in cursor order) and
// whether the n IDs are consecutive.
func (x *exhaustRun) hold(n int) (first uint16, consecutive bool, ok bool) {
	b := x.b
	start := x.lastWire() + 1
	blk := make([]*call, n)
	for i := 0; i < n; i++ {
		seq := int(seqCounter.Add(1))
		cl := &call{seq: seq, id: uint16(len(x.held)*7 + i*7), seenCh: make(chan struct{}), retCh: make(chan struct{}), late: true, parked: true}
		cl.q = dnsadv.Query(cl.id, seq, uint32(i), "c01", 1)
		blk[i] = cl
		b.mu.Lock()
		b.calls[seq] = cl
		b.mu.Unlock()
		ctx, cancel := context.WithCancel(context.Background())
		x.hmu.Lock()
		x.hcancel = append(x.hcancel, cancel)
		x.hmu.Unlock()
		x.hwg.Add(1)
		go func() {
			defer x.hwg.Done()
			r, err := x.tr.ExchangeContext(ctx, cl.q)
			close(cl.retCh)
			rep.Eval(1)
			if err != nil {
				x.heldErr.Add(1)
				rep.SetAdd("errors", "exhaust-held: "+err.Error())
				return
			}
			b.okN.Add(1)
			b.check(cl, r)
			x.heldOK.Add(1)
			pool.ReleaseBuf(r)
		}()
	}
	x.held = append(x.held, blk...)
	for _, cl := range blk {
		select {
		case <-cl.seenCh:
		case <-cl.retCh: // refused
			return 0, false, false
		case <-time.After(10 * time.Second):
			return 0, false, false
		}
	}
	var offs []int
	for _, cl := range blk {
		cl.wmu.Lock()
		offs = append(offs, int(uint16(cl.wires[0]-start)))
		cl.wmu.Unlock()
	}
	sort.Ints(offs)
	consecutive = true
	for i, o := range offs {
		consecutive = consecutive && o == i
	}
	return start, consecutive, true
}

func idExhaustion(stream bool, revolutions int, midBlock bool, seed int64) {
	name := "dgram-" + exhaustSuffix
	if stream {
		name = "stream-" + exhaustSuffix
	}
	cfg := batchCfg{Transport: name, Policy: "inorder", Callers: 8, PerCaller: revolutions, Limit: 4096, Procs: 16, Seed: seed, Surplus: midBlock}
	caselog.Log(map[string]any{"wire_id_exhaustion": cfg})
	runtime.GOMAXPROCS(16)
	sched.NoPerturb()
	b := &batch{
		cfg: cfg, net: fakenet.NewNet(), rng: rand.New(rand.NewSource(seed)),
		calls: map[int]*call{}, reps: map[string][]byte{}, meta: map[string]replyMeta{},
		stop: make(chan struct{}), perm: map[string]int{},
	}
	c := b.newConn(stream)
	dc := transport.NewDnsConn(transport.TraditionalDnsConnOpts{WithLengthHeader: stream, IdleTimeout: 60 * time.Second, MaxConcurrentQuery: cfg.Limit}, c)
	x := &exhaustRun{b: b, tr: dcExchanger{dc}, adv: b.advs[0]}
	go b.flusher()
	defer func() {
		for _, cancel := range x.hcancel {
			cancel()
		}
		close(b.stop)
		dc.Close()
		x.hwg.Wait()
	}()
	rng := rand.New(rand.NewSource(seed))
	skip := func(why string) {
		rep.SetAdd("wire_id_exhaustion_not_exercised(not judged)", cfg.Transport+": "+why)
	}
	// a first exchange tells where this connection starts its IDs
	x.one(0)
	if b.okN.Load() != 1 {
		skip("first exchange failed")
		return
	}
	type blockT struct {
		first uint16
		n     int
	}
	var blocks []blockT
	holdBlock := func(n int) bool {
		first, cons, ok := x.hold(n)
		if !ok {
			skip("connection did not take a block of held queries")
			return false
		}
		if !cons {
			skip("wire IDs are not handed out consecutively: no block of consecutive outstanding IDs can be built")
			return false
		}
		blocks = append(blocks, blockT{first, n})
		return true
	}
	// block A: the first IDs of the connection (on the original tree 1..150 after the probe
	// above; together with block C it covers 0 and its neighbours)
	if !holdBlock(100 + rng.Intn(60)) {
		return
	}
	if midBlock {
		k := uint16(8192 + rng.Intn(40000))
		if !x.fillTo(k) {
			skip("cursor did not reach the middle block position")
			return
		}
		if !holdBlock(100 + rng.Intn(60)) {
			return
		}
	}
	// block C: ends exactly in front of the first ID of block A minus the probe, i.e. it
	// straddles the 16-bit wrap together with A
	nC := 100 + rng.Intn(60)
	startC := blocks[0].first - 1 - uint16(nC) // the probe's ID sits between C and A: held too (below)
	if !x.fillTo(startC) {
		skip("cursor did not reach the position in front of the wrap")
		return
	}
	if !holdBlock(nC + 1) { // +1: takes the probe's (now free) ID as well => C and A are contiguous
		return
	}
	refusedAt := func() int64 { return x.refused.Load() }
	// drive the cursor round: each revolution = half way, then past the blocks
	for rev := 1; rev <= revolutions; rev++ {
		before := refusedAt()
		half := blocks[0].first + 0x8000
		past := blocks[0].first + uint16(blocks[0].n) + 512
		if !x.fillTo(half) || !x.fillTo(past) {
			if b.errN.Load() > 0 {
				rep.Inconclusive("wire-id exhaustion (%s): ordinary calls failed while driving the cursor round", cfg.Transport)
			} else {
				skip("cursor could not be driven round")
			}
			return
		}
		if refusedAt() > before {
			rep.Count("exhaust_revolutions_with_failed_wire_id_assignments", 1)
			rep.Nontrivial(fmt.Sprintf("wire-id-exhaustion|%s|rev%d|blocks%d|failed-assignment-then-cursor-came-round", cfg.Transport, rev, len(blocks)))
		}
	}
	rep.Count("exhaust_calls_refused_a_wire_id", x.refused.Load())
	rep.Count("exhaust_filler_calls", x.filled.Load())
	rep.Max("exhaust_max_queries_on_one_conn", int64(c.WriteCount()))
	rep.Count("exhaust_held_queries", int64(len(x.held)))
	// finally answer the held queries (oldest first), then a fence query: when the fence
	// returns the reader has dispatched every held reply
	x.adv.mu.Lock()
	late := x.adv.parked
	x.adv.parked = nil
	seen := map[int]bool{}
	for _, p := range late {
		if seen[p.seq] { // datagram re-sends of the same held query: one reply is enough
			continue
		}
		seen[p.seq] = true
		x.adv.sendLocked(p, true, "r")
	}
	x.adv.mu.Unlock()
	x.one(0)
	done := make(chan struct{})
	go func() { x.hwg.Wait(); close(done) }()
	select {
	case <-done:
	case <-time.After(5 * time.Second):
		// replies that were lost are C02's business; here only what a call RETURNS is judged
	}
	rep.Count("exhaust_held_calls_verified", x.heldOK.Load())
	// the same observations the wrap-around cell reports (this scenario includes it)
	rep.Count("wraparound_held_calls_verified", x.heldOK.Load())
	rep.Max("wraparound_max_queries_on_one_conn", int64(c.WriteCount()))
	if c.WriteCount() >= 65536+len(x.held) && x.heldOK.Load() > 0 {
		rep.Nontrivial("wraparound|ids-wrapped")
		rep.Nontrivial("wraparound|held-survived")
	}
	if n := int64(len(x.held)) - x.heldOK.Load(); n > 0 {
		rep.Count("exhaust_held_calls_without_their_reply(not judged by C01)", n)
	}
	rep.Count("calls_ok", b.okN.Load())
	rep.Count("calls_err", b.errN.Load())
}
