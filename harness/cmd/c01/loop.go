package main

// Loopback part of C01: the same unique-token oracle, but through
// upstream.NewUpstream over real sockets: udp, tcp, tcp+pipeline, tls,
// tls+pipeline, https (HTTP/2) and quic, against harness servers whose reply
// order / duplication / stray IDs are chosen by the adversary.

import (
	"bytes"
	"context"
	"crypto/tls"
	"fmt"
	"math/rand"
	"net"
	"runtime"
	"strings"
	"sync"
	"sync/atomic"
	"time"

	"github.com/IrineSistiana/mosdns/v5/pkg/pool"
	"github.com/IrineSistiana/mosdns/v5/pkg/upstream"

	"verifharness/lib/dnsadv"
	"verifharness/lib/loopnet"
	"verifharness/lib/poolsan"
	"verifharness/lib/sched"
	"verifharness/lib/wire"
)

type loopCfg struct {
	Proto     string `json:"proto"` // udp | tcp | tcp+pipeline | tls | tls+pipeline | https | quic
	Policy    string `json:"policy"`
	Callers   int    `json:"callers"`
	PerCaller int    `json:"per_caller"`
	CancelPct int    `json:"cancel_pct"`
	Procs     int    `json:"gomaxprocs"`
	Seed      int64  `json:"seed"`
}

type litem struct {
	qi     dnsadv.QueryInfo
	cl     *call
	reply  func([]byte)
	conn   int
	arrive int
}

type loopBatch struct {
	cfg    loopCfg
	mu     sync.Mutex
	rng    *rand.Rand
	calls  map[int]*call
	reps   map[string][]byte
	meta   map[string]replyMeta
	pend   []*litem
	late   []*litem
	nrep   int
	arr    int
	noise  bool
	strayN int
	since  time.Time

	okN, errN, cancelledN atomic.Int64
}

func (b *loopBatch) multiReply() bool {
	switch b.cfg.Proto {
	case "udp", "tcp+pipeline", "tls+pipeline":
		return true
	}
	return false
}

func (b *loopBatch) handle(q []byte, proto string, connID int, reply func([]byte)) {
	qi, err := dnsadv.ParseQuery(q)
	if err != nil {
		rep.Violation("client-wrote-garbage-"+b.cfg.Proto, fmt.Sprintf("server received an unparsable query: %v", err), map[string]any{"cfg": b.cfg})
		return
	}
	b.mu.Lock()
	cl := b.calls[qi.Seq]
	if cl == nil {
		b.mu.Unlock()
		return
	}
	b.arr++
	cl.sawWire(qi.WireID)
	it := &litem{qi: qi, cl: cl, reply: reply, conn: connID, arrive: b.arr}
	if b.since.IsZero() {
		b.since = time.Now()
	}
	if cl.late {
		b.late = append(b.late, it)
		b.mu.Unlock()
		cl.seenOne.Do(func() { close(cl.seenCh) })
		return
	}
	b.pend = append(b.pend, it)
	pol := b.cfg.Policy
	b.mu.Unlock()
	if pol == "inorder" || pol == "dup" || pol == "stray" {
		b.flush(true)
	}
}

func (b *loopBatch) flush(force bool) {
	b.mu.Lock()
	defer b.mu.Unlock()
	keep := b.late[:0]
	for _, it := range b.late {
		select {
		case <-it.cl.retCh:
			b.sendLocked(it, false, "late")
			b.noise = true
		default:
			keep = append(keep, it)
		}
	}
	b.late = keep
	if len(b.pend) == 0 {
		return
	}
	if !force && len(b.pend) < 4 && time.Since(b.since) < 2*time.Millisecond {
		return
	}
	batch := b.pend
	b.pend = nil
	b.since = time.Time{}
	order := b.rng.Perm(len(batch))
	pol := b.cfg.Policy
	if pol == "inorder" || pol == "dup" || pol == "stray" {
		for i := range order {
			order[i] = i
		}
	}
	emitted := make([]bool, len(batch))
	for _, k := range order {
		it := batch[k]
		overtook := false
		for j := 0; j < k; j++ {
			if !emitted[j] {
				overtook = true
			}
		}
		emitted[k] = true
		if pol == "stray" && b.multiReply() {
			b.strayN++
			name := fmt.Sprintf("stray%d.c01.test.", b.strayN)
			qs := append(wire.EncodeName(name), 0, 16, 0, 1)
			tok := fmt.Sprintf("stray/%s/%d", b.cfg.Proto, b.strayN)
			sid := it.qi.WireID + 0x4000 + uint16(b.rng.Intn(0x4000))
			for try := 0; try < 64; try++ {
				busy := false
				for _, o := range batch {
					busy = busy || o.qi.WireID == sid
				}
				for _, o := range b.late {
					busy = busy || o.qi.WireID == sid
				}
				if !busy {
					break
				}
				sid += 0x0101
			}
			strayIDs.Store(tok, sid)
			msg := dnsadv.Reply(sid, 0x8180, qs, tok, b.rng.Intn(64), 0)
			b.reps[tok] = msg
			it.reply(msg)
			b.noise = true
		}
		b.sendLocked(it, overtook, "r")
		if pol == "dup" && b.multiReply() {
			b.sendLocked(it, overtook, "dup")
			b.noise = true
		}
	}
}

func (b *loopBatch) sendLocked(it *litem, overtook bool, kind string) {
	b.nrep++
	maxPad := 3000
	pad := []int{0, b.rng.Intn(64), b.rng.Intn(600), b.rng.Intn(maxPad)}[b.rng.Intn(4)]
	tok := fmt.Sprintf("%s/%s/c%d/q%d/n%d", kind, b.cfg.Proto, it.conn, it.qi.Seq, b.nrep)
	wid := it.qi.WireID
	switch b.cfg.Proto {
	case "https", "h3", "quic":
		// The request/stream, not the message ID, correlates query and reply
		// here, so the server is free to stamp any ID (resolvers answering from
		// a shared cache do): the caller's ID must be restored regardless.
		switch b.rng.Intn(4) {
		case 1:
			wid = uint16(b.rng.Intn(65536))
		case 2:
			wid = 0xFFFF
		case 3:
			wid = uint16(it.qi.Seq)*257 + 1
		}
		if wid != it.qi.WireID {
			rep.Count("replies_with_server_chosen_id:"+b.cfg.Proto, 1)
		}
	}
	msg := dnsadv.Reply(wid, 0x8180, it.qi.QSect, tok, pad, byte(b.nrep))
	b.reps[tok] = msg
	b.meta[tok] = replyMeta{overtook: overtook, noise: b.noise, connID: it.conn}
	it.reply(msg)
}

func (b *loopBatch) check(cl *call, r *[]byte) {
	tname := b.cfg.Proto
	wit := map[string]any{"loop_cfg": b.cfg, "call_seq": cl.seq, "caller_id": cl.id, "reply_hex": fmt.Sprintf("%x", trunc(*r, 256))}
	if !poolsan.Check(r, "reply returned by upstream "+tname) {
		return
	}
	ri, err := dnsadv.ParseReply(*r)
	if err != nil {
		rep.Violation("unparsable-reply-"+tname, fmt.Sprintf("returned reply does not parse (%v)", err), wit)
		return
	}
	if strings.HasPrefix(ri.Token, "stray/") {
		if strayCollided(cl, ri.Token) {
			return
		}
		rep.Violation("stray-delivered-"+tname, "a reply whose wire ID matched no outstanding query was delivered (token "+ri.Token+")", wit)
		return
	}
	if ri.Seq != cl.seq {
		rep.Violation("misdelivery-"+tname, fmt.Sprintf("call q%d received the reply produced for q%d (token %s)", cl.seq, ri.Seq, ri.Token), wit)
		return
	}
	if ri.ID != cl.id {
		rep.Violation("id-not-restored-"+tname, fmt.Sprintf("call with caller ID %#04x got a reply with ID %#04x", cl.id, ri.ID), wit)
		return
	}
	b.mu.Lock()
	logged := b.reps[ri.Token]
	meta := b.meta[ri.Token]
	b.mu.Unlock()
	if logged == nil || !bytes.Equal(logged[2:], (*r)[2:]) {
		rep.Violation("reply-bytes-differ-"+tname, "returned reply is not byte-identical to what the server sent for token "+ri.Token, wit)
		return
	}
	rep.Count("replies_verified", 1)
	rep.Count("loopback_replies_verified:"+tname, 1)
	if meta.overtook {
		rep.Count("returned_replies_that_overtook_an_older_query", 1)
	}
	if meta.noise {
		rep.Count("returned_replies_after_stray_dup_or_late_reply_on_conn", 1)
	}
	if meta.overtook || meta.noise {
		rep.Nontrivial(fmt.Sprintf("loop|%s|%s|c%d|ot%v|nz%v|id%d|seq%d", tname, b.cfg.Policy, b.cfg.Callers, meta.overtook, meta.noise, cl.id, cl.seq))
	}
}

type loopEnv struct {
	pki     *loopnet.PKI
	servers map[string]*loopnet.Server // by base proto
	cur     atomic.Pointer[loopBatch]
}

func newLoopEnv() (*loopEnv, error) {
	pki, err := loopnet.NewPKI([]net.IP{net.ParseIP("127.0.0.1")}, []string{"localhost"})
	if err != nil {
		return nil, err
	}
	e := &loopEnv{pki: pki, servers: map[string]*loopnet.Server{}}
	h := func(q []byte, proto string, connID int, reply func([]byte)) {
		if b := e.cur.Load(); b != nil {
			b.handle(q, proto, connID, reply)
		}
	}
	var s *loopnet.Server
	if s, err = loopnet.ServeUDP(h); err != nil {
		return nil, err
	}
	e.servers["udp"] = s
	if s, err = loopnet.ServeTCP(h); err != nil {
		return nil, err
	}
	e.servers["tcp"] = s
	if s, err = loopnet.ServeTLS(pki, h); err != nil {
		return nil, err
	}
	e.servers["tls"] = s
	if s, err = loopnet.ServeDoH(pki, h); err != nil {
		return nil, err
	}
	e.servers["https"] = s
	if s, err = loopnet.ServeDoH3(pki, h); err != nil {
		return nil, err
	}
	e.servers["h3"] = s
	if s, err = loopnet.ServeDoQ(pki, h); err != nil {
		return nil, err
	}
	e.servers["quic"] = s
	return e, nil
}

func (e *loopEnv) close() {
	for _, s := range e.servers {
		s.Close()
	}
}

func (e *loopEnv) runLoop(cfg loopCfg) {
	caselog.Log(cfg)
	runtime.GOMAXPROCS(cfg.Procs)
	sched.Perturb(cfg.Seed, 0.2, 200*time.Microsecond, "tdc.exchange.queued", "tdc.exchange.written", "tdc.readloop.read", "tdc.readloop.dispatched", "reuse.exchange.written", "reuse.readloop.read", "reuse.readloop.idle", "pipeline.reserved")
	b := &loopBatch{cfg: cfg, rng: rand.New(rand.NewSource(cfg.Seed)), calls: map[int]*call{}, reps: map[string][]byte{}, meta: map[string]replyMeta{}}
	base := strings.TrimSuffix(cfg.Proto, "+pipeline")
	srv := e.servers[base]
	u, err := upstream.NewUpstream(srv.URL(strings.HasSuffix(cfg.Proto, "+pipeline")), upstream.Opt{TLSConfig: &tls.Config{RootCAs: e.pki.Pool}})
	if err != nil {
		rep.Inconclusive("cannot create %s upstream: %v", cfg.Proto, err)
		return
	}
	e.cur.Store(b)
	stop := make(chan struct{})
	go func() {
		t := time.NewTicker(400 * time.Microsecond)
		defer t.Stop()
		for {
			select {
			case <-stop:
				return
			case <-t.C:
				b.flush(false)
			}
		}
	}()
	var wg sync.WaitGroup
	for w := 0; w < cfg.Callers; w++ {
		wg.Add(1)
		wrng := rand.New(rand.NewSource(cfg.Seed*1000 + int64(w)))
		go func() {
			defer wg.Done()
			for i := 0; i < cfg.PerCaller; i++ {
				seq := int(seqCounter.Add(1))
				var id uint16
				if wrng.Intn(3) == 0 {
					id = idPool[wrng.Intn(len(idPool))]
				} else {
					id = uint16(wrng.Intn(65536))
				}
				cl := &call{seq: seq, id: id, seenCh: make(chan struct{}), retCh: make(chan struct{})}
				cl.q = dnsadv.Query(id, seq, wrng.Uint32(), "c01", uint16(1+wrng.Intn(40)))
				cl.late = cfg.CancelPct > 0 && wrng.Intn(100) < cfg.CancelPct
				qcopy := append([]byte(nil), cl.q...)
				b.mu.Lock()
				b.calls[seq] = cl
				b.mu.Unlock()
				ctx, cancel := context.WithTimeout(context.Background(), 4*time.Second)
				if cl.late {
					go func() {
						select {
						case <-cl.seenCh:
							cancel()
						case <-cl.retCh:
						}
					}()
				}
				r, err := u.ExchangeContext(ctx, cl.q)
				close(cl.retCh)
				cancel()
				rep.Eval(1)
				if !bytes.Equal(qcopy, cl.q) {
					rep.Violation("query-buffer-modified-"+cfg.Proto, "ExchangeContext modified the caller's query buffer", map[string]any{"loop_cfg": cfg})
				}
				switch {
				case err == nil:
					b.okN.Add(1)
					b.check(cl, r)
					if cl.late {
						rep.Violation("cancelled-call-got-a-reply-"+cfg.Proto, "a call whose query the server had not answered yet returned a reply", map[string]any{"loop_cfg": cfg, "seq": seq})
					}
					pool.ReleaseBuf(r)
				case cl.late:
					b.cancelledN.Add(1)
				default:
					b.errN.Add(1)
					rep.SetAdd("errors", cfg.Proto+": "+err.Error())
				}
			}
		}()
	}
	wg.Wait()
	time.Sleep(3 * time.Millisecond)
	b.flush(true)
	time.Sleep(2 * time.Millisecond)
	close(stop)
	u.Close()
	e.cur.Store(nil)
	rep.Count("calls_ok", b.okN.Load())
	rep.Count("calls_err", b.errN.Load())
	rep.Count("calls_cancelled_then_answered_late", b.cancelledN.Load())
	rep.Count("loopback_batches", 1)
	if total := b.okN.Load() + b.errN.Load(); total > 0 && b.errN.Load()*2 > total {
		rep.Inconclusive("loopback batch %+v: more than half of the calls failed (%d of %d)", cfg, b.errN.Load(), total)
		badBatches++
	}
}
