// C01 — every upstream exchange returns the reply to its own query.
//
// Workload: unique-token queries through mosdns' transports against an
// adversary that reorders, delays, duplicates replies, injects stray IDs and
// answers cancelled queries late. Monitors: per-return token oracle, buffer-pool
// sanitizer, race detector (driver), verif schedule-point perturbation.
package main

import (
	"bytes"
	"context"
	"encoding/binary"
	"fmt"
	"math/rand"
	"os"
	"runtime"
	"sort"
	"strings"
	"sync"
	"sync/atomic"
	"time"

	"github.com/IrineSistiana/mosdns/v5/pkg/pool"
	"github.com/IrineSistiana/mosdns/v5/pkg/upstream/transport"

	"verifharness/lib/dnsadv"
	"verifharness/lib/evid"
	"verifharness/lib/fakenet"
	"verifharness/lib/leak"
	"verifharness/lib/poolsan"
	"verifharness/lib/sched"
	"verifharness/lib/wire"
)

var (
	rep     *evid.Reporter
	caselog *evid.CaseLog
)

type exchanger interface {
	ExchangeContext(ctx context.Context, m []byte) (*[]byte, error)
	Close() error
}

type batchCfg struct {
	Transport string `json:"transport"` // pipe-stream | pipe-dgram | reuse
	Policy    string `json:"policy"`    // inorder | window | reverse | dup | stray | late | mix
	Callers   int    `json:"callers"`
	PerCaller int    `json:"per_caller"`
	Window    int    `json:"window"`
	Limit     int    `json:"limit"` // per-connection concurrency limit
	MaxRead   int    `json:"max_read"`
	CancelPct int    `json:"cancel_pct"`
	Procs     int    `json:"gomaxprocs"`
	Perturb   bool   `json:"perturb"`
	Seed      int64  `json:"seed"`
	Surplus   bool   `json:"surplus"` // reuse: inject surplus replies at quiescent points
}

type call struct {
	seq     int
	id      uint16
	q       []byte
	late    bool // cancel after the adversary saw it; adversary answers after the call returned
	parked  bool // (with late) held until the scenario releases it explicitly; not scanned by flush
	seenCh  chan struct{}
	seenOne sync.Once
	retCh   chan struct{}
	toks    []string // tokens of replies produced for this call (guarded by batch.mu)
	wmu     sync.Mutex
	wires   []uint16 // wire IDs under which the adversary saw this call's query
}

// strayIDs: token of a stray reply -> the wire ID it was sent with.
var strayIDs sync.Map

func (cl *call) sawWire(id uint16) {
	cl.wmu.Lock()
	cl.wires = append(cl.wires, id)
	cl.wmu.Unlock()
}

func (cl *call) usedWire(id uint16) bool {
	cl.wmu.Lock()
	defer cl.wmu.Unlock()
	for _, w := range cl.wires {
		if w == id {
			return true
		}
	}
	return false
}

// strayCollided: the adversary picks stray IDs that match no query it knows to be outstanding;
// a transport is free to hand out wire IDs in any order, so the pick can still coincide with
// the ID of a query that was just being sent. A "stray" whose ID equals a wire ID of the very
// call that received it did match an outstanding query: not a finding.
func strayCollided(cl *call, token string) bool {
	if v, ok := strayIDs.Load(token); ok && cl.usedWire(v.(uint16)) {
		rep.Count("stray_id_coincided_with_the_receiving_calls_own_wire_id(not judged)", 1)
		return true
	}
	return false
}

type pq struct {
	wireID  uint16
	seq     int
	sendIdx int
	trans   int
	qsect   []byte
	cl      *call
}

type replyMeta struct {
	overtook bool
	noise    bool
	connID   int
}

type batch struct {
	cfg   batchCfg
	net   *fakenet.Net
	mu    sync.Mutex
	rng   *rand.Rand
	calls map[int]*call
	reps  map[string][]byte
	meta  map[string]replyMeta
	advs  []*connAdv
	nrep  int
	stop  chan struct{}
	perm  map[string]int // permutation fingerprints

	okN, errN, cancelledN atomic.Int64
}

type connAdv struct {
	b          *batch
	c          *fakenet.Conn
	mu         sync.Mutex
	defr       wire.Deframer
	pend       []*pq
	late       []*pq
	parked     []*pq
	idx        int
	tr         map[int]int
	noise      bool
	lastWire   uint16
	lastNew    uint16 // wire ID of the newest first transmission (datagram re-sends do not count)
	heldByWire map[uint16]*pq
	strayN     int
	since      time.Time
	permFp     []string
}

func (b *batch) rnd(n int) int {
	b.mu.Lock()
	defer b.mu.Unlock()
	return b.rng.Intn(n)
}

func (b *batch) newConn(stream bool) *fakenet.Conn {
	c := b.net.NewConn(stream)
	c.MaxRead = b.cfg.MaxRead
	a := &connAdv{b: b, c: c, tr: map[int]int{}}
	c.OnWrite = a.onWrite
	b.mu.Lock()
	b.advs = append(b.advs, a)
	b.mu.Unlock()
	return c
}

func (a *connAdv) onWrite(c *fakenet.Conn, data []byte) error {
	var frames [][]byte
	if c.Stream {
		a.mu.Lock()
		frames = a.defr.Feed(data)
		a.mu.Unlock()
	} else {
		frames = [][]byte{data}
	}
	for _, f := range frames {
		qi, err := dnsadv.ParseQuery(f)
		if err != nil {
			rep.Violation("client-wrote-garbage-"+a.b.cfg.Transport, fmt.Sprintf("transport wrote a frame that is not a parsable query: %v", err), map[string]any{"cfg": a.b.cfg, "frame": fmt.Sprintf("%x", f)})
			continue
		}
		a.b.mu.Lock()
		cl := a.b.calls[qi.Seq]
		a.b.mu.Unlock()
		if cl == nil {
			rep.Violation("client-wrote-unknown-query-"+a.b.cfg.Transport, "transport wrote a query no caller issued: "+qi.Name, map[string]any{"cfg": a.b.cfg})
			continue
		}
		a.mu.Lock()
		a.tr[qi.Seq]++
		a.idx++
		p := &pq{wireID: qi.WireID, seq: qi.Seq, sendIdx: a.idx, trans: a.tr[qi.Seq], qsect: qi.QSect, cl: cl}
		cl.sawWire(qi.WireID)
		a.lastWire = qi.WireID
		if p.trans == 1 {
			a.lastNew = qi.WireID
		}
		if a.since.IsZero() {
			a.since = time.Now()
		}
		if cl.late {
			if hp := a.heldByWire[qi.WireID]; hp != nil && hp.seq == qi.Seq {
				// datagram re-send of a query that is already held under this ID
				a.mu.Unlock()
				continue
			}
			if cl.parked {
				a.parked = append(a.parked, p)
			} else {
				a.late = append(a.late, p)
			}
			if a.heldByWire == nil {
				a.heldByWire = map[uint16]*pq{}
			}
			a.heldByWire[qi.WireID] = p
			a.mu.Unlock()
			cl.seenOne.Do(func() { close(cl.seenCh) })
			continue
		}
		if hp := a.heldByWire[qi.WireID]; hp != nil {
			select {
			case <-hp.cl.retCh:
			default:
				// the transport reused a wire ID whose query is still unanswered on this
				// connection: answer the OLDER query now - a correct transport can never
				// get here, a broken one routes this reply to the newer caller.
				rep.Count("wire_id_reused_while_still_outstanding", 1)
				a.sendLocked(hp, false, "collide")
			}
		}
		a.pend = append(a.pend, p)
		pol := a.b.cfg.Policy
		a.mu.Unlock()
		if pol == "inorder" || pol == "dup" || pol == "stray" {
			a.flush(true)
		} else {
			a.flush(false)
		}
	}
	return nil
}

// flush answers pending queries according to the policy. force: answer
// everything now regardless of window filling.
func (a *connAdv) flush(force bool) {
	a.mu.Lock()
	defer a.mu.Unlock()
	cfg := a.b.cfg
	// late replies whose call has returned
	keep := a.late[:0]
	for _, p := range a.late {
		select {
		case <-p.cl.retCh:
			a.sendLocked(p, false, "late")
			a.noise = true
		default:
			keep = append(keep, p)
		}
	}
	a.late = keep
	if len(a.pend) == 0 {
		return
	}
	if !force && len(a.pend) < cfg.Window && time.Since(a.since) < 2*time.Millisecond {
		return
	}
	batch := a.pend
	a.pend = nil
	a.since = time.Time{}
	order := make([]int, len(batch))
	for i := range order {
		order[i] = i
	}
	pol := cfg.Policy
	if pol == "mix" {
		pol = []string{"window", "reverse", "dup", "stray", "inorder"}[a.b.rnd(5)]
	}
	switch pol {
	case "reverse":
		for i, j := 0, len(order)-1; i < j; i, j = i+1, j-1 {
			order[i], order[j] = order[j], order[i]
		}
	case "window":
		a.b.mu.Lock()
		a.b.rng.Shuffle(len(order), func(i, j int) { order[i], order[j] = order[j], order[i] })
		a.b.mu.Unlock()
	}
	if len(order) > 1 && len(order) <= 8 {
		a.b.mu.Lock()
		a.b.perm[fmt.Sprint(order)]++
		a.b.mu.Unlock()
	}
	emitted := make([]bool, len(batch))
	for _, k := range order {
		p := batch[k]
		overtook := false
		for j := 0; j < k; j++ {
			if !emitted[j] {
				overtook = true
				break
			}
		}
		emitted[k] = true
		if pol == "stray" {
			a.strayLocked(p)
		}
		a.sendLocked(p, overtook, "r")
		if pol == "dup" {
			a.sendLocked(p, overtook, "dup")
			a.noise = true
		}
	}
}

func (a *connAdv) inject(msg []byte) {
	if a.c.Stream {
		a.c.Inject(wire.Frame(msg))
	} else {
		a.c.Inject(msg)
	}
}

func (a *connAdv) strayLocked(p *pq) {
	a.strayN++
	// an ID far from the newest wire ID on this connection and not the ID of any
	// query known to be unanswered here
	id := a.lastWire + 0x4000 + uint16(a.b.rnd(0x4000))
	for try := 0; try < 64; try++ {
		busy := false
		for _, q := range a.pend {
			busy = busy || q.wireID == id
		}
		for _, q := range a.late {
			busy = busy || q.wireID == id
		}
		if !busy {
			break
		}
		id += 0x0101
	}
	name := fmt.Sprintf("stray%d-c%d.c01.test.", a.strayN, a.c.ID)
	qs := append(wire.EncodeName(name), 0, 16, 0, 1)
	tok := fmt.Sprintf("stray/c%d/%d", a.c.ID, a.strayN)
	strayIDs.Store(tok, id)
	msg := dnsadv.Reply(id, 0x8180, qs, tok, a.b.rnd(64), byte(a.strayN))
	a.b.mu.Lock()
	a.b.reps[tok] = msg
	a.b.mu.Unlock()
	a.inject(msg)
	a.noise = true
}

func (a *connAdv) sendLocked(p *pq, overtook bool, kind string) {
	a.b.mu.Lock()
	a.b.nrep++
	n := a.b.nrep
	maxPad := 4000
	if !a.c.Stream {
		maxPad = 3000
	}
	pad := 0
	switch a.b.rng.Intn(4) {
	case 0:
		pad = 0
	case 1:
		pad = a.b.rng.Intn(64)
	case 2:
		pad = a.b.rng.Intn(600)
	default:
		pad = a.b.rng.Intn(maxPad)
	}
	tok := fmt.Sprintf("%s/c%d/q%d/t%d/n%d", kind, a.c.ID, p.seq, p.trans, n)
	msg := dnsadv.Reply(p.wireID, 0x8180, p.qsect, tok, pad, byte(n))
	a.b.reps[tok] = msg
	a.b.meta[tok] = replyMeta{overtook: overtook, noise: a.noise, connID: a.c.ID}
	p.cl.toks = append(p.cl.toks, tok)
	a.b.mu.Unlock()
	a.inject(msg)
}

func (b *batch) flusher() {
	t := time.NewTicker(300 * time.Microsecond)
	defer t.Stop()
	for {
		select {
		case <-b.stop:
			return
		case <-t.C:
			b.mu.Lock()
			advs := append([]*connAdv(nil), b.advs...)
			b.mu.Unlock()
			for _, a := range advs {
				a.flush(false)
			}
		}
	}
}

func (b *batch) makeTransport() exchanger {
	cfg := b.cfg
	switch cfg.Transport {
	case "pipe-stream", "pipe-dgram":
		stream := cfg.Transport == "pipe-stream"
		return transport.NewPipelineTransport(transport.PipelineOpts{
			DialContext: func(ctx context.Context) (transport.DnsConn, error) {
				c := b.newConn(stream)
				return transport.NewDnsConn(transport.TraditionalDnsConnOpts{
					WithLengthHeader:   stream,
					IdleTimeout:        5 * time.Second,
					MaxConcurrentQuery: cfg.Limit,
				}, c), nil
			},
			MaxConcurrentQueryWhileDialing: cfg.Limit,
		})
	case "reuse":
		return transport.NewReuseConnTransport(transport.ReuseConnOpts{
			DialContext: func(ctx context.Context) (transport.NetConn, error) {
				return b.newConn(true), nil
			},
			IdleTimeout: 5 * time.Second,
		})
	}
	panic("bad transport " + cfg.Transport)
}

var idPool = []uint16{0, 0xFFFF, 1, 1, 2, 2, 3, 0x8000}

func (b *batch) check(cl *call, r *[]byte) {
	tname := b.cfg.Transport
	wit := func(extra map[string]any) map[string]any {
		m := map[string]any{"cfg": b.cfg, "call_seq": cl.seq, "caller_id": cl.id, "reply_hex": fmt.Sprintf("%x", trunc(*r, 256))}
		for k, v := range extra {
			m[k] = v
		}
		return m
	}
	if !poolsan.Check(r, "reply returned by "+tname) {
		return
	}
	ri, err := dnsadv.ParseReply(*r)
	if err != nil {
		rep.Violation("unparsable-reply-"+tname, fmt.Sprintf("returned reply does not parse (%v): not something the adversary produced", err), wit(nil))
		return
	}
	if strings.HasPrefix(ri.Token, "stray/") {
		if strayCollided(cl, ri.Token) {
			return
		}
		rep.Violation("stray-delivered-"+tname, "a reply whose wire ID matched no outstanding query was delivered to a caller (token "+ri.Token+")", wit(nil))
		return
	}
	if ri.Seq != cl.seq {
		kind := "misdelivery"
		if strings.HasPrefix(ri.Token, "late/") {
			kind = "late-reply-misdelivered"
		}
		rep.Violation(kind+"-"+tname, fmt.Sprintf("call q%d received the reply produced for q%d (token %s)", cl.seq, ri.Seq, ri.Token), wit(nil))
		return
	}
	if ri.ID != cl.id {
		rep.Violation("id-not-restored-"+tname, fmt.Sprintf("call with caller ID %#04x got a reply with ID %#04x", cl.id, ri.ID), wit(nil))
		return
	}
	b.mu.Lock()
	logged := b.reps[ri.Token]
	meta := b.meta[ri.Token]
	b.mu.Unlock()
	if logged == nil || !bytes.Equal(logged[2:], (*r)[2:]) {
		rep.Violation("reply-bytes-differ-"+tname, "returned reply is not byte-identical to the reply the adversary produced for token "+ri.Token, wit(map[string]any{"logged_hex": fmt.Sprintf("%x", trunc(logged, 256))}))
		return
	}
	rep.Count("replies_verified", 1)
	if meta.overtook {
		rep.Count("returned_replies_that_overtook_an_older_query", 1)
	}
	if meta.noise {
		rep.Count("returned_replies_after_stray_dup_or_late_reply_on_conn", 1)
	}
	if strings.HasPrefix(ri.Token, "dup/") {
		rep.Count("returned_reply_was_the_duplicate_copy", 1)
	}
	if meta.overtook || meta.noise {
		rep.Nontrivial(fmt.Sprintf("%s|%s|c%d|w%d|L%d|p%d|ot%v|nz%v|id%d|seq%d", tname, b.cfg.Policy, b.cfg.Callers, b.cfg.Window, b.cfg.Limit, b.cfg.Procs, meta.overtook, meta.noise, cl.id, cl.seq))
	}
}

func trunc(b []byte, n int) []byte {
	if len(b) > n {
		return b[:n]
	}
	return b
}

var seqCounter atomic.Int64

// badBatches counts batches in which most calls failed; after a few the run
// stops early (inconclusive) instead of waiting for thousands of timeouts.
var badBatches int

func runBatch(cfg batchCfg) {
	caselog.Log(cfg)
	if cfg.Procs > 0 {
		runtime.GOMAXPROCS(cfg.Procs)
	}
	if cfg.Perturb {
		sched.Perturb(cfg.Seed, 0.25, 300*time.Microsecond, "tdc.exchange.queued", "tdc.exchange.written", "tdc.readloop.read", "tdc.readloop.dispatched", "reuse.exchange.written", "reuse.readloop.read", "reuse.readloop.idle", "pipeline.reserved")
	} else {
		sched.NoPerturb()
	}
	b := &batch{
		cfg: cfg, net: fakenet.NewNet(), rng: rand.New(rand.NewSource(cfg.Seed)),
		calls: map[int]*call{}, reps: map[string][]byte{}, meta: map[string]replyMeta{},
		stop: make(chan struct{}), perm: map[string]int{},
	}
	tr := b.makeTransport()
	go b.flusher()
	var wg sync.WaitGroup
	for w := 0; w < cfg.Callers; w++ {
		wg.Add(1)
		wrng := rand.New(rand.NewSource(cfg.Seed*1000 + int64(w)))
		go func() {
			defer wg.Done()
			for i := 0; i < cfg.PerCaller; i++ {
				seq := int(seqCounter.Add(1))
				var id uint16
				switch wrng.Intn(3) {
				case 0:
					id = idPool[wrng.Intn(len(idPool))]
				default:
					id = uint16(wrng.Intn(65536))
				}
				cl := &call{seq: seq, id: id, seenCh: make(chan struct{}), retCh: make(chan struct{})}
				cl.q = dnsadv.Query(id, seq, wrng.Uint32(), "c01", uint16(1+wrng.Intn(40)))
				cl.late = cfg.CancelPct > 0 && wrng.Intn(100) < cfg.CancelPct
				qcopy := append([]byte(nil), cl.q...)
				b.mu.Lock()
				b.calls[seq] = cl
				b.mu.Unlock()
				ctx, cancel := context.WithTimeout(context.Background(), 3*time.Second)
				if cl.late {
					go func() {
						select {
						case <-cl.seenCh:
							cancel()
						case <-cl.retCh:
						}
					}()
				}
				r, err := tr.ExchangeContext(ctx, cl.q)
				close(cl.retCh)
				cancel()
				rep.Eval(1)
				if !bytes.Equal(qcopy, cl.q) {
					rep.Violation("query-buffer-modified-"+cfg.Transport, "ExchangeContext modified the caller's query buffer", map[string]any{"cfg": cfg})
				}
				switch {
				case err == nil && cl.late:
					// the adversary never answers a late call before it returned
					b.okN.Add(1)
					b.check(cl, r)
					rep.Violation("cancelled-call-got-a-reply-"+cfg.Transport, "a call whose query the adversary had not answered yet returned a reply", map[string]any{"cfg": cfg, "seq": seq})
					pool.ReleaseBuf(r)
				case err == nil:
					b.okN.Add(1)
					b.check(cl, r)
					pool.ReleaseBuf(r)
				case cl.late:
					b.cancelledN.Add(1)
				default:
					b.errN.Add(1)
					rep.SetAdd("errors", cfg.Transport+": "+err.Error())
				}
			}
		}()
	}
	wg.Wait()
	// let late replies drain, then optionally hit idle reuse conns with surplus replies
	time.Sleep(3 * time.Millisecond)
	b.mu.Lock()
	advs := append([]*connAdv(nil), b.advs...) // (a late dial goroutine may still append)
	b.mu.Unlock()
	for _, a := range advs {
		a.flush(true)
	}
	time.Sleep(2 * time.Millisecond)
	if cfg.Surplus && cfg.Transport == "reuse" {
		b.surplusPhase(tr)
	}
	close(b.stop)
	tr.Close()
	rep.Count("calls_ok", b.okN.Load())
	rep.Count("calls_err", b.errN.Load())
	rep.Count("calls_cancelled_then_answered_late", b.cancelledN.Load())
	rep.Count("connections_opened", int64(len(b.net.Conns())))
	for k := range b.perm {
		rep.SetAdd("reply_order_permutations", k)
	}
	if rep.WantSample() && b.okN.Load() > 0 {
		var toks []string
		for t, m := range b.meta {
			if m.overtook && len(toks) < 3 {
				toks = append(toks, t)
			}
		}
		sort.Strings(toks)
		rep.Sample(map[string]any{"batch": cfg, "ok": b.okN.Load(), "err": b.errN.Load(), "late": b.cancelledN.Load(), "conns": len(b.net.Conns()), "some_overtaking_reply_tokens": toks})
	}
	if total := b.okN.Load() + b.errN.Load(); total > 0 && b.errN.Load()*2 > total {
		rep.Inconclusive("batch %+v: more than half of the calls failed (%d of %d): workload did not exercise the property", cfg, b.errN.Load(), total)
		badBatches++
	}
}

// surplusPhase: all calls have returned, so every open connection is idle. A
// reply arriving now is a surplus reply: the connection must be closed, and the
// next query must be answered correctly on another connection.
func (b *batch) surplusPhase(tr exchanger) {
	var idle []*connAdv
	b.mu.Lock()
	for _, a := range b.advs {
		if !a.c.IsClosed() {
			idle = append(idle, a)
		}
	}
	b.mu.Unlock()
	for _, a := range idle {
		qs := append(wire.EncodeName("surplus.c01.test."), 0, 16, 0, 1)
		a.mu.Lock()
		a.b.mu.Lock()
		a.b.nrep++
		tok := fmt.Sprintf("stray/surplus/c%d/%d", a.c.ID, a.b.nrep)
		a.b.mu.Unlock()
		msg := dnsadv.Reply(uint16(a.b.rnd(65536)), 0x8180, qs, tok, 0, 0)
		a.b.mu.Lock()
		a.b.reps[tok] = msg
		a.b.mu.Unlock()
		a.inject(msg)
		a.mu.Unlock()
		if !a.c.WaitClosed(3 * time.Second) {
			rep.Violation("reuse-surplus-reply-conn-not-closed", "a surplus reply arrived on an idle non-pipelined connection and the connection was not closed", map[string]any{"cfg": b.cfg, "conn": a.c.ID})
		} else {
			rep.Count("surplus_replies_closed_idle_conn", 1)
		}
	}
	// follow-up queries must be answered correctly
	for i := 0; i < 4; i++ {
		seq := int(seqCounter.Add(1))
		cl := &call{seq: seq, id: uint16(b.rnd(65536)), seenCh: make(chan struct{}), retCh: make(chan struct{})}
		cl.q = dnsadv.Query(cl.id, seq, uint32(b.rnd(1<<30)), "c01", 1)
		b.mu.Lock()
		b.calls[seq] = cl
		b.mu.Unlock()
		ctx, cancel := context.WithTimeout(context.Background(), 3*time.Second)
		r, err := tr.ExchangeContext(ctx, cl.q)
		cancel()
		close(cl.retCh)
		rep.Eval(1)
		if err != nil {
			rep.SetAdd("errors", "after-surplus: "+err.Error())
			continue
		}
		b.check(cl, r)
		pool.ReleaseBuf(r)
	}
}

// wrapAround keeps `held` queries outstanding on one datagram connection while
// `n` others pass, so that the 16-bit wire-ID counter wraps and must skip the
// IDs still in the waiter table.
func wrapAround(n, held int, seed int64) {
	cfg := batchCfg{Transport: "pipe-dgram", Policy: "inorder", Callers: 8, PerCaller: n / 8, Limit: 4096, Procs: 16, Seed: seed}
	caselog.Log(map[string]any{"wraparound": cfg})
	runtime.GOMAXPROCS(16)
	sched.NoPerturb()
	b := &batch{
		cfg: cfg, net: fakenet.NewNet(), rng: rand.New(rand.NewSource(seed)),
		calls: map[int]*call{}, reps: map[string][]byte{}, meta: map[string]replyMeta{},
		stop: make(chan struct{}), perm: map[string]int{},
	}
	tr := b.makeTransport()
	go b.flusher()
	// held calls: flagged late but never cancelled -> the adversary keeps their
	// queries until we release them explicitly.
	var hwg sync.WaitGroup
	heldCalls := make([]*call, held)
	release := make(chan struct{})
	for i := 0; i < held; i++ {
		seq := int(seqCounter.Add(1))
		cl := &call{seq: seq, id: uint16(i * 7), seenCh: make(chan struct{}), retCh: make(chan struct{}), late: true}
		cl.q = dnsadv.Query(cl.id, seq, uint32(i), "c01", 1)
		heldCalls[i] = cl
		b.mu.Lock()
		b.calls[seq] = cl
		b.mu.Unlock()
		hwg.Add(1)
		go func() {
			defer hwg.Done()
			ctx, cancel := context.WithTimeout(context.Background(), 120*time.Second)
			defer cancel()
			r, err := tr.ExchangeContext(ctx, cl.q)
			rep.Eval(1)
			if err != nil {
				b.errN.Add(1)
				rep.SetAdd("errors", "wrap-held: "+err.Error())
				return
			}
			b.okN.Add(1)
			b.check(cl, r)
			rep.Count("wraparound_held_calls_verified", 1)
			pool.ReleaseBuf(r)
		}()
	}
	for _, cl := range heldCalls {
		select {
		case <-cl.seenCh:
		case <-time.After(5 * time.Second):
			rep.Inconclusive("wrap-around: held query never reached the adversary")
			return
		}
	}
	var wg sync.WaitGroup
	for w := 0; w < cfg.Callers; w++ {
		wg.Add(1)
		go func(w int) {
			defer wg.Done()
			for i := 0; i < cfg.PerCaller; i++ {
				seq := int(seqCounter.Add(1))
				cl := &call{seq: seq, id: uint16(seq * 31), seenCh: make(chan struct{}), retCh: make(chan struct{})}
				cl.q = dnsadv.Query(cl.id, seq, uint32(w), "c01", 1)
				b.mu.Lock()
				b.calls[seq] = cl
				b.mu.Unlock()
				ctx, cancel := context.WithTimeout(context.Background(), 5*time.Second)
				r, err := tr.ExchangeContext(ctx, cl.q)
				cancel()
				rep.Eval(1)
				if err != nil {
					b.errN.Add(1)
					rep.SetAdd("errors", "wrap: "+err.Error())
				} else {
					b.okN.Add(1)
					b.check(cl, r)
					pool.ReleaseBuf(r)
				}
				b.mu.Lock()
				delete(b.calls, seq) // keep memory bounded
				for _, t := range cl.toks {
					delete(b.reps, t)
					delete(b.meta, t)
				}
				b.mu.Unlock()
			}
		}(w)
	}
	wg.Wait()
	_ = release
	// how many wire IDs did the connection use? (all on one conn expected)
	conns := b.net.Conns()
	maxWrites := 0
	for _, c := range conns {
		if n := c.WriteCount(); n > maxWrites {
			maxWrites = n
		}
	}
	rep.Max("wraparound_max_queries_on_one_conn", int64(maxWrites))
	if maxWrites >= 65536+held {
		rep.Nontrivial("wraparound|ids-wrapped")
		rep.Nontrivial("wraparound|held-survived")
	}
	// release held calls: mark them returned-from-adversary's view by answering now
	b.mu.Lock()
	wadvs := append([]*connAdv(nil), b.advs...)
	b.mu.Unlock()
	for _, a := range wadvs {
		a.mu.Lock()
		for _, p := range a.late {
			a.sendLocked(p, true, "r")
		}
		a.late = nil
		a.mu.Unlock()
	}
	hwg.Wait()
	close(b.stop)
	tr.Close()
	rep.Count("calls_ok", b.okN.Load())
	rep.Count("calls_err", b.errN.Load())
}

func main() {
	rep = evid.New("C01", "exploration")
	caselog = evid.OpenCaseLog()
	poolsan.Install(func(r poolsan.Report) {
		rep.Violation("poolsan-"+r.Kind, "buffer-pool sanitizer: "+r.Kind+": "+r.Info, map[string]any{"stack": r.Stack})
	})
	rep.SetRule("each case = one exchange with a unique question/token through PipelineTransport (stream, datagram) or ReuseConnTransport on an adversarial in-memory connection; generated from the seed over transports x adversary policies x callers x limits x GOMAXPROCS; non-trivial = a verified returned reply that overtook an older outstanding query on its connection or followed a stray/duplicate/late reply there (fingerprint includes transport, policy, shape, caller id and call number)")
	rep.Assume("fakenet connection delivers exactly the bytes the adversary injected (harness code)")
	rep.Assume("late replies to abandoned queries arrive before 65536 further queries reuse the wire ID (property scope)")

	if rep.ReplayFile != "" {
		var c struct {
			Cfg batchCfg `json:"cfg"`
		}
		if err := rep.LoadReplay(&c); err != nil {
			fmt.Println("cannot load replay:", err)
			os.Exit(3)
		}
		if strings.HasSuffix(c.Cfg.Transport, exhaustSuffix) {
			idExhaustion(strings.HasPrefix(c.Cfg.Transport, "stream"), c.Cfg.PerCaller, c.Cfg.Surplus, c.Cfg.Seed)
			rep.Finish()
		}
		for i := 0; i < 20; i++ {
			c.Cfg.Seed += int64(i)
			runBatch(c.Cfg)
		}
		rep.Finish()
	}

	rng := rand.New(rand.NewSource(rep.Seed))
	transports := []string{"pipe-stream", "pipe-dgram", "reuse"}
	policies := []string{"inorder", "window", "reverse", "dup", "stray", "late", "mix"}
	rounds := rep.Pick(1, 12)
	per := rep.Pick(12, 25)
	for round := 0; round < rounds; round++ {
		for _, tname := range transports {
			for _, pol := range policies {
				for _, callers := range []int{1, 8, 32} {
					cfg := batchCfg{Transport: tname, Policy: pol, Callers: callers, PerCaller: per,
						Window: 2 + rng.Intn(7), Limit: []int{2, 8, 64}[rng.Intn(3)], Procs: []int{1, 2, 16}[rng.Intn(3)],
						Perturb: rng.Intn(2) == 0, Seed: rng.Int63n(1 << 40)}
					if rng.Intn(3) == 0 {
						cfg.MaxRead = 1 + rng.Intn(9)
					}
					if pol == "late" || pol == "mix" {
						cfg.CancelPct = 25
					}
					if tname == "reuse" {
						switch pol {
						case "dup", "stray":
							// property scope: one reply per query on non-pipelined connections;
							// surplus replies are only injected at quiescent points.
							cfg.Policy = "window"
							cfg.Surplus = true
						case "mix":
							cfg.Policy = "window"
						}
					}
					if callers == 1 && pol != "late" {
						cfg.PerCaller = per * 4
					}
					if badBatches < 3 {
						runBatch(cfg)
					}
				}
			}
		}
	}
	if badBatches >= 3 {
		rep.Inconclusive("stopped early: calls keep failing, the transports do not deliver replies")
		rep.Finish()
	}
	// ---- real upstreams over loopback sockets ----
	env, err := newLoopEnv()
	if err != nil {
		rep.Inconclusive("cannot start loopback servers: %v", err)
	} else {
		for round := 0; round < rep.Pick(1, 10); round++ {
			for _, proto := range []string{"udp", "tcp", "tcp+pipeline", "tls", "tls+pipeline", "https", "h3", "quic"} {
				for _, pol := range []string{"inorder", "window", "dup", "stray", "late"} {
					multi := proto == "udp" || strings.HasSuffix(proto, "+pipeline")
					if !multi && (pol == "dup" || pol == "stray") {
						continue // one reply per query on these transports (property scope / protocol)
					}
					for _, callers := range []int{1, 8, 32} {
						if !rep.Thorough() && callers == 1 && pol != "inorder" {
							continue
						}
						cfg := loopCfg{Proto: proto, Policy: pol, Callers: callers, PerCaller: rep.Pick(6, 12), Procs: []int{2, 16}[rng.Intn(2)], Seed: rng.Int63n(1 << 40)}
						if pol == "late" {
							cfg.CancelPct = 25
						}
						if badBatches < 3 {
							env.runLoop(cfg)
						}
					}
				}
			}
		}
		env.close()
	}
	// both tiers: the exhaustion scenario below holds long consecutive blocks, which hides
	// allocators that look at a neighbouring slot (seeded change C01-A); this cell holds 50
	// scattered queries across the wrap
	// failed wire-ID assignments must not disturb the queries in flight (exhaust.go)
	if rep.Thorough() {
		wrapAround(70000, 50, rep.Seed)
		idExhaustion(false, 2, true, rep.Seed)
		idExhaustion(true, 1, false, rep.Seed+1)
	} else {
		// quick: the two cells are independent (own fake network, own connection, own
		// adversary) and each is bound by the per-connection query rate under -race, so
		// they run side by side
		var wg sync.WaitGroup
		wg.Add(1)
		go func() { defer wg.Done(); wrapAround(70000, 50, rep.Seed) }()
		idExhaustion(false, 1, false, rep.Seed)
		wg.Wait()
	}
	runtime.GOMAXPROCS(16)
	sched.NoPerturb()
	poolsan.Sweep()
	left := leak.WaitNone([]string{"mosdns/v5/pkg/upstream/transport."}, nil, 10*time.Second)
	rep.Count("transport_goroutines_left_after_close", int64(len(left)))
	for name, n := range sched.Counts() {
		rep.Count("hook:"+name, n)
	}
	rep.Count("hook_distinct_successions", int64(sched.DistinctSuccessions()))
	rep.Count("poolsan_gets", poolsan.Gets.Load())
	rep.Count("poolsan_releases", poolsan.Releases.Load())
	if rep.Get("replies_verified") == 0 || rep.Get("returned_replies_that_overtook_an_older_query") == 0 {
		rep.Inconclusive("monitor observed no verified / no overtaking replies")
	}
	_ = binary.BigEndian
	rep.Finish()
}
