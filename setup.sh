#!/bin/sh
# Offline warm-up: compile the harness libraries and every property program once
# (with the race detector where the driver uses it) so that quick checks start
# from a warm build cache. Everything comes from files on disk / the module cache.
set -e
export GOFLAGS=-mod=mod GOPROXY=off GOSUMDB=off GOTOOLCHAIN=local
cd "$(dirname "$0")/harness"
mkdir -p ../.bin ../evidence/replay
go build -tags verif ./... 
go build -tags verif -race ./lib/... 
for d in cmd/*/; do
  id=$(basename "$d")
  if grep -q "\"$(echo $id | tr a-z A-Z)\": dict(race=True" ../check; then
    go build -tags verif -race -o ../.bin/$id-race ./cmd/$id || exit 1
  else
    go build -tags verif -o ../.bin/$id ./cmd/$id || exit 1
  fi
done
echo setup ok
