#!/bin/sh
# Offline warm-up: compile the harness libraries and every claimed property
# program once (with the race detector where the driver uses it) so that quick
# checks start from a warm build cache. Everything comes from files on disk /
# the module cache; nothing is fetched.
export GOFLAGS=-mod=mod GOPROXY=off GOSUMDB=off GOTOOLCHAIN=local
cd "$(dirname "$0")/harness" || exit 1
mkdir -p ../.bin ../evidence/replay
go build -tags verif ./lib/... || exit 1
for ID in $(cat ../tools/built.txt); do
  id=$(echo "$ID" | tr A-Z a-z)
  [ -d "cmd/$id" ] || continue
  if grep -q "\"$ID\": dict(race=True" ../check; then
    go build -tags verif -race -o ../.bin/$id-race ./cmd/$id || exit 1
  else
    go build -tags verif -o ../.bin/$id ./cmd/$id || exit 1
  fi
done
echo setup ok
